"""E1: explicit-state breadth-first search over operation histories on the
real implementation.

A *spec* is a module (or any object importable by dotted name) providing

    build(init)      -> S     fresh harness state (real objects + reference model)
    ops(S)           -> list  operations enabled in S (JSON-able tuples)
    step(S, op)      -> list  apply op to S (real code + model in lock-step) and
                              return violations [(family, symptom, features,
                              expected, observed)]; must catch library errors
    key(S)           -> hashable canonical state (everything that can
                              influence future behaviour of the code under test)

A state is identified with the shortest history reaching it; live objects are
never copied: workers rebuild them by replaying the history on a fresh object.
Replaying a history must reproduce the recorded key (checked for every expanded
state: a divergence is a harness error, never a verdict)."""
import importlib
import time

from mc import core

_SPECS = {}


def _spec(name):
    s = _SPECS.get(name)
    if s is None:
        modname, _, attr = name.partition(":")
        s = importlib.import_module(modname)
        if attr:
            s = getattr(s, attr)
        _SPECS[name] = s
    return s


def replay(spec, init, hist):
    S = spec.build(init)
    for op in hist:
        spec.step(S, op)
    return S


def _expand(job):
    specname, init, hist, expect = job
    spec = _spec(specname)
    S0 = replay(spec, init, hist)
    k0 = core.digest(spec.key(S0))
    if expect is not None and k0 != expect:
        return ("DIVERGED", init, hist)
    out = []
    for op in spec.ops(S0):
        S = replay(spec, init, hist)
        try:
            v = spec.step(S, op)
            kd = core.digest(spec.key(S))
        except RecursionError as ex:
            # the structure reached cannot even be read (a box containing itself, unbounded nesting): that is an
            # ill-formed state produced by the code under test on an in-domain history
            v = [(op[0], "exception:RecursionError-while-observing-the-state", {"site:" + core.exc_site(ex)},
                  None, core.tb_tail(ex))]
            kd = core.digest(("unreadable", repr((init, hist, op))))
        out.append((kd, op, [tuple(x[:3]) + (core.jsonable(x[3]), core.jsonable(x[4])) for x in v] if v else None))
    return out


def explore(acc, specname, inits, family, max_depth=None, deadline=None,
            expand_violating=False, fn_name="history"):
    """Returns dict(states, transitions, depth, fixpoint)."""
    spec = _spec(specname)
    seen = {}
    frontier = []
    with core.quiet():
        for init in inits:
            k = core.digest(spec.key(spec.build(init)))
            if k not in seen:
                seen[k] = True
                frontier.append((init, (), k))
    depth = 0
    trans = 0
    fix = False
    capped = False
    opcount = {}
    while frontier:
        if max_depth is not None and depth >= max_depth:
            break
        if deadline is not None and time.time() > deadline:
            capped = True
            break
        jobs = [(specname, init, hist, k) for init, hist, k in frontier]
        cs = max(1, min(64, len(jobs) // (core.NPROC * 8) or 1))
        # a layer is expanded in slices so that the deadline also holds inside a very wide layer (a change to
        # the library can make states stop merging: the search must then stop at its budget, not run for hours)
        results = []
        step_ = max(core.NPROC * cs * 4, 256)
        for lo in range(0, len(jobs), step_):
            if deadline is not None and time.time() > deadline and lo:
                capped = True
                break
            results.extend(core.pmap(_expand, jobs[lo:lo + step_], cs))
        nxt = []
        for (init, hist, _), res in zip(frontier, results):
            if isinstance(res, tuple) and res and res[0] == "DIVERGED":
                acc.errors.append("replay divergence in %s at init=%r hist=%r" % (family, init, hist))
                continue
            for kd, op, viols in res:
                trans += 1
                opcount[op[0]] = opcount.get(op[0], 0) + 1
                if viols:
                    for fam, sym, feats, exp, obs in viols:
                        acc.violation(fam, sym, feats, fn_name, (specname, init, hist + (op,)),
                                      exp, obs, idx=trans)
                    if not expand_violating:
                        continue
                if kd not in seen:
                    seen[kd] = True
                    nxt.append((init, hist + (op,), kd))
                    acc.sample(family, len(seen), (init, hist + (op,)))
        if capped:
            frontier = frontier[len(results):] + nxt
            break
        frontier = nxt
        depth += 1
    else:
        fix = True
    if capped:
        acc.capped.append(family)
    acc.states += len(seen)
    acc.transitions += trans
    acc.validated += trans
    acc.case(family, trans)
    acc.nt(family, len(seen))
    for k, n in opcount.items():
        acc.path("%s:op:%s" % (family, k), n)
    info = dict(states=len(seen), transitions=trans, depth=depth, fixpoint=fix,
                unexpanded_frontier=len(frontier))
    acc.notes[family] = info
    return info


def replay_case(case):
    """Case function for `./check --replay`: re-run a recorded history and
    report the violations of its last step."""
    specname, init, hist = case
    spec = _spec(specname)
    S = replay(spec, init, hist[:-1])
    return spec.step(S, hist[-1]) or []

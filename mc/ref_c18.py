"""Reference model for C18 (format footprints).  Plain Python over tree specs
(see mc.univ); imports nothing from fibertree.

A tree spec of depth d is a tuple over the coordinates 0..dims[0]-1 of
(None | sub-spec); at the leaf level a tuple of cells '-' (absent), '0' (stored
leaf default) or 'v' (stored non-default value).  `None` passed as a *node*
stands for an absent child, which the property counts as an empty fiber.

A format specification is kept in *case form*: a tuple of per-rank tuples
(format, rhbits, fhbits, cbits, pbits, layout) followed by the root tuple
(hbits, pbits); None = field missing.  A per-rank entry that is None as a whole
means the rank has no entry in the specification at all, a root entry None
means there is no "root" key."""

FIELDS = ("format", "rhbits", "fhbits", "cbits", "pbits", "layout")


def spec_dict(spec, ids):
    """Case form -> the dict handed to Format (only the non-missing fields)."""
    out = {}
    for rid, ent in zip(ids, spec[:-1]):
        if ent is None:
            continue
        out[rid] = {k: v for k, v in zip(FIELDS, ent) if v is not None}
    root = spec[-1]
    if root is not None:
        out["root"] = {k: v for k, v in zip(("hbits", "pbits"), root) if v is not None}
    return out


def filled(spec, depth):
    """The property's defaults: zero bits, compressed, (contiguous)."""
    fmt, rh, fh, cb, pb = [], [], [], [], []
    for l in range(depth):
        ent = spec[l] if spec[l] is not None else (None,) * 6
        fmt.append(ent[0] if ent[0] is not None else "C")
        rh.append(ent[1] or 0)
        fh.append(ent[2] or 0)
        cb.append(ent[3] or 0)
        pb.append(ent[4] or 0)
    root = spec[-1] if spec[-1] is not None else (None, None)
    return fmt, rh, fh, cb, pb, (root[0] or 0) + (root[1] or 0)


class Footprints:
    def __init__(self, tree, depth, dims, spec):
        self.tree, self.depth, self.dims = tree, depth, dims
        self.fmt, self.rh, self.fh, self.cb, self.pb, self.root = filled(spec, depth)

    # -- raw walk helpers ---------------------------------------------------
    def stored(self, node, l):
        """Coordinates of the stored elements of a fiber (explicit defaults and
        empty sub-fibers are stored elements)."""
        if node is None:
            return []
        if l == self.depth - 1:
            return [i for i, x in enumerate(node) if x != '-']
        return [i for i, x in enumerate(node) if x is not None]

    def nonempty(self, node, l):
        """An element is non-empty iff a non-default leaf lies below it."""
        if node is None:
            return False
        if l == self.depth - 1:
            return any(x not in '-0' for x in node)
        return any(self.nonempty(x, l + 1) for x in node)

    # -- the property ---------------------------------------------------------
    def fiber(self, node, l):
        """header + (coordinate + payload bits) x (occupancy | shape)."""
        n = len(self.stored(node, l)) if self.fmt[l] == "C" else self.dims[l]
        return self.fh[l] + (self.cb[l] + self.pb[l]) * n

    def subtree(self, node, l):
        """Sum over exactly the fibers reachable below: through non-empty stored
        elements of a compressed rank, through every coordinate of the shape
        of an uncompressed one (absent children = empty fibers)."""
        tot = self.fiber(node, l)
        if l < self.depth - 1:
            if self.fmt[l] == "C":
                for i in self.stored(node, l):
                    if self.nonempty(node[i], l + 1):
                        tot += self.subtree(node[i], l + 1)
            else:
                for i in range(self.dims[l]):
                    tot += self.subtree(node[i] if node is not None else None, l + 1)
        return tot

    def ranks(self):
        """Per rank: rank header + every fiber found at that level by a raw walk."""
        tot = list(self.rh)

        def walk(node, l):
            tot[l] += self.fiber(node, l)
            if l < self.depth - 1:
                for i in self.stored(node, l):
                    walk(node[i], l + 1)
        walk(self.tree, 0)
        return tot

    def points(self):
        """Every point prefix shorter than the depth, with the node it names
        and how it is reachable: 'stored' (a fiber of the tree), 'via_U' (absent,
        but every absent step happens below an uncompressed rank, whose layout
        holds the child as an empty fiber) or 'via_C' (absent below a compressed
        rank: the property does not say such a fiber exists)."""
        out = []

        def rec(node, l, prefix, how):
            out.append((prefix, node, l, how))
            if l < self.depth - 1:
                for i in range(self.dims[l]):
                    ch = node[i] if node is not None else None
                    h = how
                    if ch is None:
                        h = "via_C" if (how == "via_C" or self.fmt[l] == "C") else "via_U"
                    rec(ch, l + 1, prefix + (i,), h)
        rec(self.tree, 0, (), "stored")
        return out


def raw_tree(fiber, depth, dims, default=0):
    """Tree spec of the fibers that are actually in the tree now: a raw walk over
    the `coords` / `payloads` lists starting at the root fiber (duck-typed; the
    rank objects and their fiber lists are not consulted).  Leaf cells: '-' no
    stored element, '0' stored leaf default, 'v' any other stored value."""
    def unwrap(p):
        return p if hasattr(p, "coords") else getattr(p, "value", p)

    def rec(f, l):
        if l == depth - 1:
            cells = ['-'] * dims[l]
            for c, p in zip(f.coords, f.payloads):
                cells[c] = '0' if unwrap(p) == default else 'v'
            return tuple(cells)
        kids = [None] * dims[l]
        for c, p in zip(f.coords, f.payloads):
            kids[c] = rec(unwrap(p), l + 1)
        return tuple(kids)
    return rec(fiber, 0)


# ---------------------------------------------------------------------------
# pairwise covering arrays (deterministic greedy, verified)

def pairwise(levels):
    """Rows over fields with the given numbers of levels such that every pair
    of values of every two fields occurs in some row.  Deterministic greedy
    construction; the result is verified before it is returned."""
    k = len(levels)
    need = set()
    for a in range(k):
        for b in range(a + 1, k):
            for x in range(levels[a]):
                for y in range(levels[b]):
                    need.add((a, x, b, y))
    rows = []
    while need:
        # seed the row with the lexicographically first uncovered pair
        a, x, b, y = min(need)
        row = [None] * k
        row[a], row[b] = x, y
        for f in range(k):
            if row[f] is not None:
                continue
            best, bestv = -1, 0
            for v in range(levels[f]):
                gain = 0
                for g in range(k):
                    if row[g] is None or g == f:
                        continue
                    key = (g, row[g], f, v) if g < f else (f, v, g, row[g])
                    if key in need:
                        gain += 1
                # rotate ties by the row number so that values spread out
                if gain > best or (gain == best and (v - len(rows)) % levels[f] < (bestv - len(rows)) % levels[f]):
                    best, bestv = gain, v
            row[f] = bestv
        for a in range(k):
            for b in range(a + 1, k):
                need.discard((a, row[a], b, row[b]))
        rows.append(tuple(row))
    # verification
    for a in range(k):
        for b in range(a + 1, k):
            seen = {(r[a], r[b]) for r in rows}
            assert len(seen) == levels[a] * levels[b], (a, b)
    return rows

"""Reference side of C17 (plain Python; imports nothing from fibertree).

* synthetic well-formed traces in the CSV trace format (`rows_of`, `csv_text`)
* the buffet window rule (`buffet_counts`)
* E3: exhaustive memoised search over replacement decisions
  (state = (trace index, frozenset of resident lines)) giving the minimum
  number of fills with bypass allowed (`e3_min_fills`)
* stable merge by stamp and the filter rule
"""
import collections

LOOP = ("M", "K", "N")


def loop_ranks(k):
    """Loop order of a k-deep nest: the innermost rank is always N."""
    return list(LOOP[3 - k:])


def rows_of(k, slots, inner_step=2, outer_step=1, outer_coord_offset=1):
    """Turn slots ((level, pos, kind), ...) into (reads, writes).

    A row is (stamp, point, fiber_pos).  `level` says which loop rank advances
    between the previous slot and this one (k-1 = the innermost only; j < k-1 =
    rank j advances and everything below restarts at 0); it is ignored for the
    first slot.  A slot occupies two innermost iteration positions, the read
    at 2j and the write at 2j+1 (the convention of the populate read/write
    traces), so stamps are globally distinct and strictly increasing; an
    outer rank advances by `outer_step` (2 when the outer rank is itself
    populated: iteration m reads at 2m and writes at 2m+1).
    Coordinates of the outer ranks are position+1 (so a confusion of stamp and
    point columns is visible); the innermost coordinate is the fiber position.
    kind: 'r' read, 'w' write, 'b' read then write."""
    cur = None
    reads, writes = [], []
    for lvl, pos, kind in slots:
        if cur is None:
            cur = [0] * k
        elif lvl >= k - 1:
            cur[k - 1] += inner_step
        else:
            cur[lvl] += outer_step
            for d in range(lvl + 1, k):
                cur[d] = 0
        point = tuple(c + outer_coord_offset for c in cur[:-1]) + (pos,)
        if kind in "rb":
            reads.append((tuple(cur), point, pos))
        if kind in "wb":
            writes.append((tuple(cur[:-1]) + (cur[-1] + 1,), point, pos))
    return reads, writes


def shared_rows(seq, ntensors=2):
    """One loop rank, several tensors: access j of `seq` ((tensor index, pos,
    kind 'r' / 'w'), ...) happens at iteration j; a read has stamp (2j,), a
    write (2j+1,) (the populate convention), so all stamps are distinct and the
    global order of the accesses is the order of `seq`.
    Returns [(reads, writes) per tensor]."""
    out = [([], []) for _ in range(ntensors)]
    for j, (t, pos, kind) in enumerate(seq):
        if kind == "r":
            out[t][0].append(((2 * j,), (pos,), pos))
        else:
            out[t][1].append(((2 * j + 1,), (pos,), pos))
    return out


def header(ranks):
    return ",".join([r + "_pos" for r in ranks] + list(ranks) + ["fiber_pos"])


def csv_text(ranks, rows):
    out = [header(ranks)]
    for stamp, point, pos in rows:
        out.append(",".join(str(x) for x in tuple(stamp) + tuple(point) + (pos,)))
    return "\n".join(out) + "\n"


def merge(reads, writes):
    """Stable merge by stamp of (stamp, point, pos) rows; the read trace is the
    first operand, so on equal stamps the read comes first.  Adds is_write."""
    out = []
    i = j = 0
    while i < len(reads) or j < len(writes):
        if j < len(writes) and (i >= len(reads) or writes[j][0] < reads[i][0]):
            out.append(writes[j] + (True,))
            j += 1
        else:
            out.append(reads[i] + (False,))
            i += 1
    return out


def line_of(point, pos, tmask, epl):
    """Identity of the buffer line an access touches: the coordinates of the
    tensor's own outer ranks (which fiber) and the line index inside it."""
    outer = tuple(c for c, m in zip(point[:-1], tmask[:-1]) if m)
    return outer + (pos // epl,)


def buffet_counts(events, tmask, epl, evict_end, shape):
    """Window rule.  events: merged (stamp, point, pos, is_write) rows.
    A window is one value of the stamp prefix up to the evict-on rank
    (evict_end = 0 for root).  Returns (fills, write_backs, n_groups)."""
    groups = collections.OrderedDict()
    for stamp, point, pos, isw in events:
        key = (line_of(point, pos, tmask, epl), tuple(stamp[:evict_end]))
        groups.setdefault(key, []).append((isw, pos))
    fills = sum(1 for g in groups.values() if not g[0][0])
    wbs = sum(1 for g in groups.values()
              if any(isw and (shape is None or pos < shape) for isw, pos in g))
    return fills, wbs, len(groups)


def first_read_lines(lines, is_write):
    """Number of distinct lines whose first access is a read."""
    seen = set()
    n = 0
    for ln, w in zip(lines, is_write):
        if ln not in seen:
            seen.add(ln)
            if not w:
                n += 1
    return n


def e3_min_fills(lines, cap):
    """E3: minimum number of fills over *all* replacement decisions for the
    read sequence `lines` in a buffer of `cap` lines; on a miss the line may
    bypass the buffer, take a free slot, or replace any resident line.
    Exhaustive memoised search over (trace index, frozenset of resident
    lines).  Returns (min_fills, states, transitions)."""
    n = len(lines)
    memo = {}
    trans = [0]

    def go(i, res):
        if i == n:
            return 0
        key = (i, res)
        v = memo.get(key)
        if v is not None:
            return v
        x = lines[i]
        if x in res:
            trans[0] += 1
            best = go(i + 1, res)
        else:
            trans[0] += 1
            best = 1 + go(i + 1, res)                      # bypass
            if cap > 0:
                if len(res) < cap:
                    trans[0] += 1
                    best = min(best, 1 + go(i + 1, res | {x}))
                else:
                    for y in res:
                        trans[0] += 1
                        best = min(best, 1 + go(i + 1, (res - {y}) | {x}))
        memo[key] = best
        return best

    r = go(0, frozenset())
    return r, len(memo), trans[0]


def filter_rows(in_rows, fil_rows):
    """Rows of the input whose point occurs in the filter (the filter may list
    more ranks: then its points are compared on the input's ranks)."""
    kin = len(in_rows[0][1]) if in_rows else 0
    pts = set(tuple(r[1][:kin]) for r in fil_rows) if in_rows else set()
    return [r for r in in_rows if tuple(r[1]) in pts]

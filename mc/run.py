"""CLI: python -m mc.run <id> [--tier quick|thorough] [--replay path] [--selftest]"""
import argparse
import importlib
import json
import os
import sys
import warnings

warnings.simplefilter("ignore")


def main(argv=None):
    ap = argparse.ArgumentParser()
    ap.add_argument("pid")
    ap.add_argument("--tier", default=os.environ.get("VERIF_TIER") or "quick",
                    choices=["quick", "thorough"])
    ap.add_argument("--replay")
    ap.add_argument("--only", help="comma-separated family-name prefixes (debugging aid; "
                                   "evidence is then marked non-exhaustive)")
    args = ap.parse_args(argv)

    from mc import core
    import fibertree
    here = os.path.realpath(os.path.dirname(fibertree.__file__))
    if not here.startswith(os.path.realpath(core.REPO) + os.sep):
        print("HARNESS-ERROR fibertree imported from %s, not from %s" % (here, core.REPO))
        return 2

    pid = args.pid.upper()
    mod = importlib.import_module("mc.props.%s" % pid.lower())

    if args.replay:
        with open(args.replay) as f:
            rec = json.load(f)
        fn = mod.CASES[rec["fn"]]
        case = core.tuplify(rec["case"])
        print("replaying property=%s family=%s fn=%s" % (pid, rec.get("family"), rec["fn"]))
        print("case     =", json.dumps(rec["case"]))
        with core.quiet():
            out = list(fn(case))
        if not out:
            print("result   = property holds on this case")
            return 0
        for v in out:
            print("family   =", v[0], " symptom =", v[1], " features =", list(v[2]))
            print("expected =", json.dumps(core.jsonable(v[3]))[:2000])
            print("observed =", json.dumps(core.jsonable(v[4]))[:2000])
        print("VIOLATION property=%s replay=%s" % (pid, args.replay))
        return 1

    # watchdog: a check that cannot reach a verdict (a changed library can make a call spin, or make states
    # stop merging) ends as a harness error instead of hanging; generous, so that a loaded machine does not trip it
    import signal
    limit = int(os.environ.get("VERIF_WALL_LIMIT") or (3600 if args.tier == "quick" else 6 * 3600))

    def _expired(signum, frame):
        print("HARNESS-ERROR property=%s no verdict within %d s wall clock (tier %s): the exploration did not "
              "terminate; nothing is claimed by this run" % (pid, limit, args.tier), flush=True)
        # kill our own descendants (pool workers), nobody else
        try:
            kids = {}
            for d in os.listdir("/proc"):
                if d.isdigit():
                    try:
                        with open("/proc/%s/stat" % d) as f:
                            kids.setdefault(int(f.read().rsplit(")", 1)[1].split()[1]), []).append(int(d))
                    except Exception:
                        pass
            todo, mine = [os.getpid()], []
            while todo:
                for k in kids.get(todo.pop(), []):
                    mine.append(k)
                    todo.append(k)
            for k in mine:
                try:
                    os.kill(k, signal.SIGKILL)
                except Exception:
                    pass
        except Exception:
            pass
        os._exit(2)
    signal.signal(signal.SIGALRM, _expired)
    signal.alarm(limit)

    ctx = core.Ctx(pid, args.tier)
    ctx.level = getattr(mod, "LEVEL", "exploration")
    ctx.rule = getattr(mod, "RULE", "")
    ctx.assumptions = list(getattr(mod, "ASSUMPTIONS", []))
    ctx.only = args.only.split(",") if args.only else None
    if ctx.only:
        ctx.exhaustive = False
    mod.run(ctx)
    rc = ctx.finish()
    core.close_pool()
    return rc


if __name__ == "__main__":
    sys.exit(main())

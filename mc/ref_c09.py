"""Reference oracles for C09 (and the parameter spaces C14 shares with it).

Plain Python over dict / list / tuple.  Nothing in here imports fibertree: a
tree is only ever looked at through its *spec* (the nested tuple it was built
from) and a content map  point -> value.
"""
import itertools

STYLES = ("tuple", "pair", "linear", "absolute", "relative")
INVERTIBLE = ("tuple", "pair")          # styles unflattenRanks can invert


# ---------------------------------------------------------------------------
# specs

def stored_points(spec, depth, prefix=()):
    """Points of every *stored* leaf element (explicit defaults included)."""
    out = []
    if depth == 1:
        for i, x in enumerate(spec):
            if x != '-':
                out.append(prefix + (i,))
        return out
    for i, x in enumerate(spec):
        if x is not None:
            out.extend(stored_points(x, depth - 1, prefix + (i,)))
    return out


def stored_children(spec, depth, path):
    """Coordinates stored in the fiber reached by `path` (None if absent)."""
    s, d = spec, depth
    for c in path:
        if d == 1 or s[c] is None:
            return None
        s, d = s[c], d - 1
    if d == 1:
        return [i for i, x in enumerate(s) if x != '-']
    return [i for i, x in enumerate(s) if x is not None]


def fibers_at(spec, depth, level, prefix=()):
    """(path, sub-spec) of every fiber stored at `level` (0 = root)."""
    if level == 0:
        return [(prefix, spec)]
    out = []
    if depth == 1:
        return out
    for i, x in enumerate(spec):
        if x is not None:
            out.extend(fibers_at(x, depth - 1, level - 1, prefix + (i,)))
    return out


def stored_prefixes(spec, depth, n):
    """Paths of length n (1..depth) of every stored element at level n-1."""
    if n == depth:
        return stored_points(spec, depth)
    return [path for path, _ in fibers_at(spec, depth, n)]


def t4c_specs(dims=(2, 2, 2, 2), at_most=None, at_least=None):
    """Depth-len(dims) trees holding content only: every subset of the index
    space (optionally only those with <= at_most or >= at_least points), no
    explicit defaults, no empty sub-fibers.  Fewest points first."""
    pts = list(itertools.product(*[range(n) for n in dims]))

    def build(sel, d, prefix):
        n = dims[d]
        if d == len(dims) - 1:
            cells = tuple('v' if prefix + (i,) in sel else '-' for i in range(n))
            return cells if 'v' in cells else None
        subs = tuple(build(sel, d + 1, prefix + (i,)) for i in range(n))
        return subs if any(s is not None for s in subs) else None

    masks = sorted(range(1 << len(pts)), key=lambda m: (bin(m).count("1"), m))
    for m in masks:
        n = bin(m).count("1")
        if at_most is not None and n > at_most and (at_least is None or n < at_least):
            continue
        sel = {p for i, p in enumerate(pts) if m >> i & 1}
        s = build(sel, 0, ())
        if s is None:           # the empty tree: an empty root
            s = tuple(None for _ in range(dims[0])) if len(dims) > 1 else tuple('-' * dims[0])
        yield s


def leafval(point):
    """Position-tagged value of a 'v' cell: 1 followed by (coordinate+1) per rank
    (never 0, 7 or -1; the same values univ.mktree stores)."""
    v = 1
    for c in point:
        v = v * 10 + c + 1
    return v


def cellval(point, cell, default=0):
    """Value stored for a cell: '0' explicit default, 'z' a stored literal 0 (an
    ordinary value when the default is not 0), 'v' position-tagged."""
    if cell == '0':
        return default
    if cell == 'z':
        return 0
    return leafval(point)


def spec_content(spec, depth, default=0, prefix=()):
    """point -> value of every stored leaf whose value differs from `default`,
    from the spec alone (cells '-', '0', 'z', 'v')."""
    out = {}
    if depth == 1:
        for i, x in enumerate(spec):
            if x == '-':
                continue
            v = cellval(prefix + (i,), x, default)
            if v != default:
                out[prefix + (i,)] = v
        return out
    for i, x in enumerate(spec):
        if x is not None:
            out.update(spec_content(x, depth - 1, default, prefix + (i,)))
    return out


def tn_specs(dims, alphabet):
    """Every tree of depth len(dims) over the leaf-cell alphabet: a leaf fiber is
    any cell tuple (all '-' = a stored empty leaf fiber), an interior fiber any
    tuple of (None = absent | sub-tree) (all None = a stored empty fiber).
    Fewest stored leaf elements first."""
    def w(s):
        if s is None:
            return (0, 0)
        if isinstance(s, str):
            return (1 if s != '-' else 0, 0)
        a, b = 0, 1
        for x in s:
            wa, wb = w(x)
            a, b = a + wa, b + wb
        return (a, b)

    def rec(d):
        if d == len(dims) - 1:
            return list(itertools.product(alphabet, repeat=dims[d]))
        sub = [None] + rec(d + 1)
        return list(itertools.product(sub, repeat=dims[d]))
    return sorted(rec(0), key=lambda s: (w(s), repr(s)))


def has_empty_interior(spec, depth, below_root_only=True):
    """Is a fiber above the leaf rank (by default: other than the root) stored
    without any element?"""
    def rec(s, d, root):
        if d == 1:
            return False
        if all(x is None for x in s) and not (root and below_root_only):
            return True
        return any(rec(x, d - 1, False) for x in s if x is not None)
    return rec(spec, depth, True)


# ---------------------------------------------------------------------------
# coordinate maps

def nest_pair(g):
    """(a, b, c, d) -> (a, (b, (c, d)))"""
    out = tuple(g[-2:])
    for v in reversed(g[:-2]):
        out = (v, out)
    return out


def combine(g, style, gdims):
    """Coordinate of the flattened rank for the original coordinates g (top
    first); gdims are the shapes of those ranks (needed for linear only)."""
    if style == "tuple":
        return tuple(g)
    if style == "pair":
        return nest_pair(g)
    if style == "absolute":
        return g[-1]
    if style == "relative":
        return sum(g)
    if style == "linear":
        c = 0
        for x, n in zip(g, gdims):
            c = c * n + x
        return c
    raise ValueError(style)


def flat_point(p, d, l, style, dims):
    return p[:d] + (combine(p[d:d + l + 1], style, dims[d:d + l + 1]),) + p[d + l + 1:]


def image_flatten(C, d, l, style, dims):
    """Content after flattening ranks d..d+l: None if two points collide."""
    out = {}
    for p, v in C.items():
        q = flat_point(p, d, l, style, dims)
        if q in out:
            return None
        out[q] = v
    return out


def collides(points, d, l, style, dims):
    seen = set()
    for p in points:
        q = flat_point(p, d, l, style, dims)
        if q in seen:
            return True
        seen.add(q)
    return False


def rank_collides(prefixes, d, l, style, dims):
    """Do two stored elements of the lowest flattened rank (given by their
    paths of length d+l+1) receive the same coordinate in the same fiber of the
    flattened rank?  Then the library has to merge payloads (sub-fibers or
    leaves), which flattenRanks refuses by design."""
    seen = set()
    for p in prefixes:
        q = p[:d] + (combine(p[d:d + l + 1], style, dims[d:d + l + 1]),)
        if q in seen:
            return True
        seen.add(q)
    return False


def image_merge(C, d, l, style, dims, fn, default=0):
    """Content after merging ranks d..d+l, colliding values reduced with fn
    (a function of a list of values); values equal to the default vanish."""
    groups = {}
    for p in sorted(C):
        groups.setdefault(flat_point(p, d, l, style, dims), []).append(C[p])
    out = {}
    for q, vs in groups.items():
        v = vs[0] if len(vs) == 1 else fn(vs)
        if v != default:
            out[q] = v
    return out


def image_perm(C, perm):
    """Rank i of the result is rank perm[i] of the original."""
    return {tuple(p[i] for i in perm): v for p, v in C.items()}


def inverse_perm(perm):
    inv = [0] * len(perm)
    for i, j in enumerate(perm):
        inv[j] = i
    return tuple(inv)


def image_swap(C, d):
    return {p[:d] + (p[d + 1], p[d]) + p[d + 2:]: v for p, v in C.items()}


def image_coord(C, d, f):
    return {p[:d] + (f(p[d]),) + p[d + 1:]: v for p, v in C.items()}


def image_value(C, f, default=0):
    out = {}
    for p, v in C.items():
        w = f(v)
        if w != default:
            out[p] = w
    return out


def legal_flatten(depth):
    """Every (depth, levels) with levels >= 1 that stays inside the tree."""
    return [(d, l) for d in range(depth - 1) for l in range(1, depth - d)]


# ---------------------------------------------------------------------------
# deviation models (what a known wrong behaviour would produce)

def dm_update_first_subfiber_only(spec, depth, C, d, f):
    """updateCoords(depth=d>0) returning after the first sub-fiber at every
    level of the descent: only the leftmost stored path is rewritten."""
    path = ()
    for _ in range(d):
        ch = stored_children(spec, depth, path)
        if not ch:
            return dict(C)
        path = path + (ch[0],)
    return {(p[:d] + (f(p[d]),) + p[d + 1:]) if p[:d] == path else p: v for p, v in C.items()}


def dm_payloads_at_occupancy_index(spec, depth, cellval, f, default=0):
    """updatePayloads(depth=leaf) taking the write index from an iteration
    that skips empty payloads: the k-th non-empty payload's new value lands at
    position k."""
    out = {}
    for path, leaf in fibers_at(spec, depth, depth - 1):
        coords = [i for i, x in enumerate(leaf) if x != '-']
        vals = [cellval(path + (i,), leaf[i]) for i in coords]
        k = 0
        new = list(vals)
        for v in vals:
            if v != default:
                new[k] = f(v)
                k += 1
        for c, v in zip(coords, new):
            if v != default:
                out[path + (c,)] = v
    return out

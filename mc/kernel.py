"""A sum-of-products kernel interpreter written in the library's idiom:
populate (z << ...) for output ranks, & or leader-follower intersection for
ranks shared by several inputs, plain iteration for a rank held by one input,
`z_ref += product` at the leaf.  Used by C06 (dataflow independence), C15
(metrics transparency / exactness) and C16 (trace well-formedness).

The interpreter keeps its own ledger of what it executed (products, in-place
updates, accumulations into a non-empty accumulator, loop bodies per loop rank)
so that C15 can compare the library's counters with it."""
import collections
import itertools

from fibertree import Fiber, Tensor, Payload

EXPRS = {
    # name: (output index vars, [input index vars...])
    "dot": ((), [("k",), ("k",)]),
    "elem": (("m",), [("m",), ("m",)]),
    "elem2d": (("m", "n"), [("m", "n"), ("m", "n")]),
    "matvec": (("m",), [("m", "k"), ("k",)]),
    "matmul": (("m", "n"), [("m", "k"), ("k", "n")]),
    "rowsum": (("m",), [("m", "k")]),
    "sumall": ((), [("m", "k")]),
    "colsum": (("n",), [("m", "n")]),
    "outer": (("m", "n"), [("m",), ("n",)]),
    "elem3": (("m",), [("m",), ("m",), ("m",)]),
    "matmul-scale": (("m", "n"), [("m", "k"), ("k", "n"), ("n",)]),
    # 3-rank operands (a tiling of two of their ranks splits at fibertree depth >= 2)
    "sum3": (("m", "k"), [("m", "k", "n")]),
    "ttv": (("m", "k"), [("m", "k", "n"), ("n",)]),
}
NAMES = "ABCD"


def index_vars(ins):
    return sorted(set(v for r in ins for v in r))


def nest(shape, flat):
    it = iter(flat)

    def rec(i):
        if i == len(shape) - 1:
            return [next(it) for _ in range(shape[i])]
        return [rec(i + 1) for _ in range(shape[i])]
    return rec(0)


def dense(out, ins, vals, shapes):
    """Dense evaluation of the expression by nested loops over the index space."""
    allv = index_vars(ins)
    res = collections.defaultdict(int)
    for idx in itertools.product(*[range(shapes[v]) for v in allv]):
        env = dict(zip(allv, idx))
        prod = 1
        for r, val in zip(ins, vals):
            x = val
            for v in r:
                x = x[env[v]]
            prod *= x
        res[tuple(env[v] for v in out)] += prod
    return {k: v for k, v in res.items() if v != 0}


class Kernel:
    def __init__(self, out, ins, order, tiles=None, style="two-finger", inner_after=False, prep=None):
        self.out, self.ins, self.order = tuple(out), [tuple(r) for r in ins], list(order)
        self.tiles = dict(tiles or {})
        self.style = style
        self.inner_after = inner_after     # inner tile loop directly after its outer loop
        # general schedules: prep = sequence of ("split", rank id, tile size) / ("swizzle", [rank ids]) steps applied
        # to every operand holding the rank(s), in this order (so a rank may be tiled again after a re-ordering);
        # `order` is then the complete loop order over the final rank ids
        self.prep = list(prep) if prep is not None else None
        self.hook = None                   # optional observer (C16): hook(event, rank, coord, info)

    # -- preparation: tiling + concordant swizzle ---------------------------
    def loop_order(self):
        order = []
        for v in self.order:
            if v in self.tiles:
                order.append(v + ".1")
                if self.inner_after:
                    order.append(v + ".0")
            else:
                order.append(v)
        if not self.inner_after:
            order += [v + ".0" for v in self.order if v in self.tiles]
        return order

    def prepare(self, tensors, zshape=None, ztemplate=None):
        """zshape: optional dict index var -> extent; gives Z a declared shape.
        ztemplate: an (empty) output tensor in the expression's rank order; the kernel's output is the template
        swizzled to the loop order (untiled programs only)."""
        if self.prep is not None:
            return self._prepare_general(tensors, zshape)
        order = self.loop_order()
        prepped = []
        for t, ranks in zip(tensors, self.ins):
            tt = t
            for v in ranks:
                if v in self.tiles:
                    if self.tiles[v] < 0:
                        # `tensor / parts`: the top rank cut into that many equal parts of its shape
                        assert tt.getRankIds().index(v) == 0
                        tt = tt / (-self.tiles[v])
                    else:
                        tt = tt.splitUniform(self.tiles[v], depth=tt.getRankIds().index(v))
            want = [r for r in order if r in tt.getRankIds()]
            if want != tt.getRankIds():
                tt = tt.swizzleRanks(want)
            prepped.append(tt)
        zranks = []
        for v in self.out:
            zranks += [v + ".1", v + ".0"] if v in self.tiles else [v]
        zorder = [r for r in order if r in zranks]
        if ztemplate is not None:
            assert not self.tiles
            Z = ztemplate.swizzleRanks(zorder) if zorder else ztemplate
        elif zshape is not None and zorder:
            Z = Tensor(rank_ids=zorder, shape=[zshape[r.split(".")[0]] for r in zorder], name="Z")
        else:
            Z = Tensor(rank_ids=zorder, name="Z")
        self.lorder, self.zorder = order, zorder
        return prepped, Z

    def _prepare_general(self, tensors, zshape):
        order = list(self.order)
        prepped = []
        for t in tensors:
            tt = t
            for st in self.prep:
                ids = tt.getRankIds()
                if st[0] == "split":
                    if st[1] in ids:
                        tt = tt.splitUniform(st[2], depth=ids.index(st[1]))
                else:
                    want = [r for r in st[1] if r in ids]
                    assert sorted(want) == sorted(ids), (want, ids)
                    if want != ids:
                        tt = tt.swizzleRanks(want)
            ids = tt.getRankIds()
            want = [r for r in order if r in ids]
            assert sorted(want) == sorted(ids), (want, ids)
            if want != ids:
                tt = tt.swizzleRanks(want)
            prepped.append(tt)
        zorder = [r for r in order if r.split(".")[0] in self.out]
        if zshape is not None and zorder:
            Z = Tensor(rank_ids=zorder, shape=[zshape[r.split(".")[0]] for r in zorder], name="Z")
        else:
            Z = Tensor(rank_ids=zorder, name="Z")
        self.lorder, self.zorder = order, zorder
        return prepped, Z

    # -- execution -------------------------------------------------------------
    def run(self, tensors, zshape=None, ztemplate=None):
        ins, Z = self.prepare(tensors, zshape, ztemplate)
        return self.execute(ins, Z)

    def execute(self, ins, Z):
        """The loop nest proper (what a metrics session brackets)."""
        self.prepped = ins
        self.ledger = collections.Counter()
        self.bodies = collections.Counter()     # loop rank -> bodies executed
        cur = [t.getRoot() for t in ins]
        self._loop(0, Z.getRoot(), cur, [list(t.getRankIds()) for t in ins], 0)
        self.Z = Z
        return Z

    def _leaf(self, z, cur):
        prod = None
        for p in cur:
            if prod is None:
                prod = p
            else:
                prod = prod * p
                self.ledger["mul"] += 1
        if self.style == "leader-follower" and Payload.get(prod) == 0:
            return
        old = Payload.get(z)
        z += prod
        self.ledger["update"] += 1
        if old != 0:
            self.ledger["add"] += 1

    def _loop(self, li, z, cur, rankids, zdepth):
        if li == len(self.lorder):
            self._leaf(z, cur)
            return
        v = self.lorder[li]
        part = [i for i, r in enumerate(rankids) if r and r[0] == v]
        inz = zdepth < len(self.zorder) and self.zorder[zdepth] == v
        assert part, "index variable %s bound by no input" % v
        fibs = [cur[i] for i in part]
        if len(fibs) == 1:
            co = fibs[0]

            def unpack(p):
                return [p]
        elif self.style == "leader-follower":
            co = Fiber.intersection(*fibs, style="leader-follower")

            def unpack(p):
                return list(Payload.get(p))
        else:
            co = fibs[0]
            for f in fibs[1:]:
                co = co & f

            def unpack(p, n=len(fibs)):
                out = []
                for _ in range(n - 1):
                    a, b = Payload.get(p)
                    out.append(b)
                    p = a
                out.append(p)
                return list(reversed(out))
        nrank = [(r[1:] if i in part else r) for i, r in enumerate(rankids)]
        if inz:
            for c, (zr, p) in z << co:
                self.bodies[v] += 1
                ps = unpack(p)
                nc = list(cur)
                for i, q in zip(part, ps):
                    nc[i] = q
                self._loop(li + 1, zr, nc, nrank, zdepth + 1)
        else:
            for c, p in co:
                self.bodies[v] += 1
                ps = unpack(p)
                nc = list(cur)
                for i, q in zip(part, ps):
                    nc[i] = q
                self._loop(li + 1, z, nc, nrank, zdepth)

    # -- result ----------------------------------------------------------------
    def zcontent(self, Z=None):
        """Output content mapped back to the expression's output index order
        (tile-upper coordinates dropped: the .0 ranks hold absolute coordinates)."""
        Z = Z or self.Z
        root = Z.getRoot()
        if not self.zorder:
            v = Payload.get(root)
            return {(): v} if v != 0 else {}
        res = {}

        def rec(f, pt):
            for c, p in zip(f.coords, f.payloads):
                if isinstance(p, Fiber):
                    rec(p, pt + (c,))
                else:
                    val = Payload.get(p)
                    if val != 0:
                        env = {}
                        for r, x in zip(self.zorder, pt + (c,)):
                            if r.endswith(".1"):
                                continue
                            env[r.split(".")[0]] = x
                        res[tuple(env[o] for o in self.out)] = val
        rec(root, ())
        return res


def make_inputs(ins, vals, shapes, declared=True):
    """Fresh input tensors A, B, ... from dense nests.  declared=False: built from a fiber tree without a shape
    argument (the ranks only hold the extents estimated from their fibers)."""
    ts = []
    for i, (r, val) in enumerate(zip(ins, vals)):
        if declared:
            ts.append(Tensor.fromUncompressed(list(r), val, shape=[shapes[v] for v in r], name=NAMES[i]))
        else:
            def tree(x):
                # plain coordinate / payload lists, no shape anywhere; all-zero sub-nests are left out
                if not isinstance(x[0], list):
                    cs = [c for c, v in enumerate(x) if v != 0]
                    return Fiber(cs, [x[c] for c in cs])
                subs = [(c, tree(y)) for c, y in enumerate(x)]
                subs = [(c, f) for c, f in subs if len(f.coords)]
                return Fiber([c for c, _ in subs], [f for _, f in subs])
            ts.append(Tensor.fromFiber(list(r), tree(val), name=NAMES[i]))
    return ts


def all_values(rank, shapes, alphabet):
    sh = [shapes[v] for v in rank]
    n = 1
    for s in sh:
        n *= s
    for flat in itertools.product(alphabet, repeat=n):
        yield flat

"""Observation layer: structural snapshots taken from the documented public
attributes (Fiber.coords / Fiber.payloads / Tensor.ranks / Rank.fibers), never
through the library's own iterators (which are themselves under test)."""
from fibertree import Fiber, Payload, Tensor, CoordPayload


def unbox(p):
    for _ in range(64):          # bounded: a box may (wrongly) contain itself
        if not isinstance(p, Payload):
            break
        p = p.value
    else:
        return "CYCLIC-OR-DEEPLY-NESTED-BOX"
    return p


def rawtree(f):
    """(coords, payloads) nest with unboxed leaves; wrongly typed payloads are
    made visible instead of being normalised away."""
    if isinstance(f, Fiber):
        ps = []
        for p in f.payloads:
            if isinstance(p, Fiber):
                ps.append(rawtree(p))
            elif isinstance(p, Payload):
                v = p.value
                if isinstance(v, Payload):
                    ps.append(("DOUBLE-BOX", unbox(v)))
                elif isinstance(v, Fiber):
                    ps.append(("BOXED-FIBER", rawtree(v)))
                else:
                    ps.append(v)
            else:
                ps.append(("UNBOXED", repr(p)))
        return (tuple(f.coords), tuple(ps))
    if isinstance(f, Payload):
        return ("P", f.value)
    return ("?", repr(f))


# Instance attributes a Fiber has on the pinned tree.  Anything else found on a live fiber (a memo, a cache, a cursor
# added by a change to the library) is *hidden state*: it can steer later operations, so it has to be part of an
# explicit-state key - otherwise two states that differ only in such an attribute are merged and the futures of the one
# reached later (typically through a rejected or read-only operation) are never explored.  Over-fine keys only cost
# time; on the unchanged tree the component is constant.
_FIBER_ATTRS = frozenset(['_active_range', '_is_lazy', '_max_coord', '_ordered', '_owner', '_rank_attrs', '_saved_count',
                          '_saved_dist', '_saved_pos', '_unique', 'coords', 'iter', 'payloads'])


def _summ(v, depth=0):
    if isinstance(v, (int, float, str, bool, type(None))):
        return v
    if isinstance(v, Payload):
        return ("P", unbox(v))
    if isinstance(v, (list, tuple)):
        return tuple(_summ(x, depth + 1) for x in v[:8]) if depth < 3 else len(v)
    if isinstance(v, dict):
        return tuple(sorted((repr(k), repr(_summ(x, depth + 1))) for k, x in list(v.items())[:8])) if depth < 3 else len(v)
    return type(v).__name__


def hidden(f):
    """(deprecated max-coordinate cache, every instance attribute the pinned Fiber class does not have)"""
    d = vars(f)
    return (d.get("_max_coord"),) + tuple(sorted((k, repr(_summ(v))) for k, v in d.items() if k not in _FIBER_ATTRS))


def hidden_globals():
    """Class-level data attributes that are not there on the pinned tree (class-wide memos), summarised."""
    from fibertree.core.rank import Rank
    from fibertree.core.rank_attrs import RankAttrs
    out = []
    for cls in (Fiber, Payload, Tensor, Rank, RankAttrs):
        for k, v in vars(cls).items():
            if k.startswith("__") or callable(v) or isinstance(v, (classmethod, staticmethod, property)):
                continue
            if isinstance(v, (list, dict, set)):
                out.append((cls.__name__, k, repr(_summ(v if not isinstance(v, set) else sorted(v, key=repr)))))
    return tuple(sorted(out))


_OBJ_ATTRS = {"Tensor": frozenset(['_color', '_mutable', '_name', '_root', 'ranks', 'yamlfile']),
              "Rank": frozenset(['_attrs', 'fibers', 'next_rank']),
              "RankAttrs": frozenset(['_default', '_default_is_set', '_estimated_shape', '_fmt', '_id', '_shape']),
              "Payload": frozenset(['value'])}


def hidden_tensor(t):
    """Hidden state (see `hidden`) of a tensor's own objects: the tensor, its ranks, their attributes, and the leaf boxes."""
    out = []
    if t is None:
        return ()
    objs = [t] + list(t.ranks) + [r._attrs for r in t.ranks]

    def boxes(f):
        for p in f.payloads:
            if isinstance(p, Fiber):
                boxes(p)
            elif isinstance(p, Payload):
                objs.append(p)
    if isinstance(t._root, Fiber):
        boxes(t._root)
    for i, o in enumerate(objs):
        base = _OBJ_ATTRS.get(type(o).__name__, frozenset())
        try:
            d = vars(o)
        except TypeError:
            continue
        ex = tuple(sorted((k, repr(_summ(v))) for k, v in d.items() if k not in base))
        if ex:
            out.append((i, type(o).__name__, ex))
    return tuple(out)


def rawfull(f):
    """rawtree plus per-fiber saved position / active range / hidden state (state keys)."""
    if isinstance(f, Fiber):
        ps = tuple(rawfull(p) if isinstance(p, Fiber) else
                   (p.value if isinstance(p, Payload) and not isinstance(p.value, (Payload, Fiber))
                    else ("BAD", repr(p)))
                   for p in f.payloads)
        return (tuple(f.coords), ps, f._saved_pos, f._active_range, hidden(f))
    return rawtree(f)


def freeze(x):
    """Immutable copy of nested lists/tuples (snapshots must not alias live objects)."""
    if isinstance(x, (list, tuple)):
        return tuple(freeze(y) for y in x)
    return x


def attrs_of(ra):
    d = ra._default
    return (freeze(ra._id), freeze(ra._shape), ra._estimated_shape, ra._fmt, ra._default_is_set,
            unbox(d) if not isinstance(d, Fiber) else "Fiber")


def rawtensor(t, with_pos=False):
    root = t._root
    r = (rawfull(root) if with_pos else rawtree(root)) if isinstance(root, Fiber) else ("P", unbox(root))
    return (r,
            tuple(attrs_of(rk._attrs) for rk in t.ranks),
            t._name, t._color, t._mutable)


def rank_index_view(t):
    """Rank lists expressed as DFS indices of the live tree (stale entries are
    visible as ('stale', ...)), plus owner / chain consistency flags."""
    order = {}
    cnt = {}

    def rec(f, d):
        i = cnt.get(d, 0)
        cnt[d] = i + 1
        order[id(f)] = (d, i)
        for p in f.payloads:
            if isinstance(p, Fiber):
                rec(p, d + 1)
    if isinstance(t._root, Fiber):
        rec(t._root, 0)
    out = []
    for rk in t.ranks:
        out.append(tuple(order.get(id(f), ("stale", rawtree(f))) for f in rk.fibers))
    return tuple(out)


def content(f, default=0, prefix=()):
    """dict point -> unboxed leaf value for leaves differing from the default."""
    out = {}
    if isinstance(f, Tensor):
        root = f._root
        if not isinstance(root, Fiber):
            v = unbox(root)
            return {(): v} if v != default else {}
        f = root
    for c, p in zip(f.coords, f.payloads):
        if isinstance(p, Fiber):
            out.update(content(p, default, prefix + (c,)))
        else:
            v = unbox(p)
            if v != default:
                out[prefix + (c,)] = v
    return out


def wf(f, depth=None):
    """C01 well-formedness of an ordered/unique tree.  Returns None or a
    short reason.  `depth` (levels below and including f) is inferred from the
    first path if not given; all leaves must sit at the same depth."""
    info = {"leaf": None}

    def rec(f, d):
        if len(f.coords) != len(f.payloads):
            return "length-mismatch@%d" % d
        cs = f.coords
        for i in range(len(cs) - 1):
            try:
                if not cs[i] < cs[i + 1]:
                    return "unordered-or-duplicate@%d" % d
            except TypeError:
                return "incomparable-coords@%d" % d
        for p in f.payloads:
            if isinstance(p, Fiber):
                if info["leaf"] is not None and info["leaf"] <= d:
                    return "fiber-at-leaf-depth@%d" % d
                r = rec(p, d + 1)
                if r:
                    return r
            elif isinstance(p, Payload):
                if isinstance(p.value, Payload):
                    return "double-boxed@%d" % d
                if isinstance(p.value, Fiber):
                    return "boxed-fiber@%d" % d
                if info["leaf"] is None:
                    info["leaf"] = d
                elif info["leaf"] != d:
                    return "leaf-depth-%d-vs-%d" % (info["leaf"], d)
            else:
                return "unboxed-payload@%d" % d
        return None
    if depth is not None:
        info["leaf"] = depth - 1
    return rec(f, 0)


def interior_depths_ok(f, nranks):
    """With a known number of ranks: fibers at depth < nranks-1 hold fibers,
    fibers at depth nranks-1 hold boxed leaves."""
    def rec(f, d):
        for p in f.payloads:
            if isinstance(p, Fiber):
                if d >= nranks - 1:
                    return "fiber-below-leaf-rank@%d" % d
                r = rec(p, d + 1)
                if r:
                    return r
            else:
                if d != nranks - 1:
                    return "leaf-above-leaf-rank@%d" % d
        return None
    return rec(f, 0)


def mirror(t):
    """C02 predicate.  None if the rank bookkeeping mirrors the tree."""
    if not t.ranks:
        return None if not isinstance(t._root, Fiber) else "rank0-tensor-with-fiber-root"
    root = t._root
    if not isinstance(root, Fiber):
        return "no-root-fiber"
    lv = [[] for _ in t.ranks]

    def rec(f, d):
        if d >= len(lv):
            return "tree-deeper-than-ranks"
        lv[d].append(f)
        for p in f.payloads:
            if isinstance(p, Fiber):
                r = rec(p, d + 1)
                if r:
                    return r
            elif d != len(lv) - 1:
                return "leaf-above-leaf-rank@%d" % d
        return None
    r = rec(root, 0)
    if r:
        return r
    for d, (a, rk) in enumerate(zip(lv, t.ranks)):
        ta = sorted(map(id, a))
        la = sorted(map(id, rk.fibers))
        if ta != la:
            sa, sl = set(ta), set(la)
            if len(la) != len(sl):
                return "rank%d-duplicate-entry" % d
            if sl - sa:
                return "rank%d-stale-entry" % d
            return "rank%d-missing-entry" % d
        for f in rk.fibers:
            if f.getOwner() is not rk:
                return "rank%d-owner" % d
    for i, rk in enumerate(t.ranks):
        nxt = t.ranks[i + 1] if i + 1 < len(t.ranks) else None
        if rk.next_rank is not nxt:
            return "chain@%d" % i
    if len(t.ranks[0].fibers) != 1 or t.ranks[0].fibers[0] is not root:
        return "root-not-single-fiber-of-rank0"
    return None


def ids(obj):
    """Identity set of every mutable object reachable from a fiber / tensor:
    Fiber, Payload box, Rank, RankAttrs, default boxes."""
    out = {}

    def fib(f):
        if id(f) in out:
            return
        out[id(f)] = f
        ra = getattr(f, "_rank_attrs", None)
        if ra is not None:
            out[id(ra)] = ra
            for m in (ra._id, ra._shape):
                if isinstance(m, list):
                    out[id(m)] = m
            if isinstance(ra._default, (Payload, Fiber)):
                out[id(ra._default)] = ra._default
        for p in f.payloads:
            if isinstance(p, Fiber):
                fib(p)
            elif isinstance(p, Payload):
                out[id(p)] = p
    if isinstance(obj, Tensor):
        out[id(obj)] = obj
        for rk in obj.ranks:
            out[id(rk)] = rk
            out[id(rk._attrs)] = rk._attrs
            for m in (rk._attrs._id, rk._attrs._shape):
                if isinstance(m, list):
                    out[id(m)] = m
            if isinstance(rk._attrs._default, (Payload, Fiber)):
                out[id(rk._attrs._default)] = rk._attrs._default
            for f in rk.fibers:
                fib(f)
        if isinstance(obj._root, Fiber):
            fib(obj._root)
        elif isinstance(obj._root, Payload):
            out[id(obj._root)] = obj._root
    elif isinstance(obj, Fiber):
        fib(obj)
    elif isinstance(obj, Payload):
        out[id(obj)] = obj
    return out


def fibers_by_path(f, prefix=()):
    """All (path, fiber) pairs of a tree, DFS order."""
    out = [(prefix, f)]
    for c, p in zip(f.coords, f.payloads):
        if isinstance(p, Fiber):
            out.extend(fibers_by_path(p, prefix + (c,)))
    return out


def sub(f, path):
    """Raw descent by coordinates (no library search code)."""
    for c in path:
        f = f.payloads[f.coords.index(c)]
    return f

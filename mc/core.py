"""Shared runner machinery: accumulators, sharded exhaustive enumeration over a
process pool, violation signatures, known-findings matching, replay artefacts
and evidence files.

Nothing in here samples: `VERIF_SEED` only rotates shard assignment and picks
which explored cases are written out as `coverage.samples`.
"""
import atexit
import collections
import contextlib
import hashlib
import io
import json
import multiprocessing
import os
import signal
import random
import shutil
import sys
import tempfile
import time
import traceback
import warnings

VERIF = os.path.dirname(os.path.dirname(os.path.abspath(__file__)))
REPO = os.environ.get("VERIF_REPO", "/repo")
NPROC = int(os.environ.get("VERIF_PROCS", os.cpu_count() or 4))
SEED = int(os.environ.get("VERIF_SEED", "0") or 0)

_DEVNULL = None


def jsonable(x, depth=0):
    """Convert a case / observation to something json.dump accepts."""
    if depth > 12:
        return repr(x)
    if x is None or isinstance(x, (bool, int, float, str)):
        return x
    if isinstance(x, (list, tuple)):
        return [jsonable(y, depth + 1) for y in x]
    if isinstance(x, (set, frozenset)):
        return sorted((jsonable(y, depth + 1) for y in x), key=repr)
    if isinstance(x, dict):
        return {str(k): jsonable(v, depth + 1) for k, v in x.items()}
    return repr(x)


def tuplify(x):
    """Inverse of the list-ification json does to tuples (cases are tuples)."""
    if isinstance(x, list):
        return tuple(tuplify(y) for y in x)
    return x


def digest(x):
    return hashlib.md5(repr(x).encode()).digest()


def hexdigest(x):
    return hashlib.md5(repr(x).encode()).hexdigest()[:12]


# ---------------------------------------------------------------------------
# scratch directories (one per process, removed at exit)

_scratch = None


def scratch():
    global _scratch
    if _scratch is None or _scratch[0] != os.getpid():
        base = os.environ.get("TMPDIR", "/tmp")
        d = tempfile.mkdtemp(prefix="mc-%d-" % os.getpid(), dir=base)
        _scratch = (os.getpid(), d)
        atexit.register(shutil.rmtree, d, True)
    return _scratch[1]


def _rm_scratch_now():
    global _scratch
    if _scratch is not None and _scratch[0] == os.getpid():
        shutil.rmtree(_scratch[1], True)
        _scratch = None


@contextlib.contextmanager
def quiet():
    """Silence the library's print() calls (codec, parse errors)."""
    old = sys.stdout
    sys.stdout = io.StringIO()
    try:
        yield
    finally:
        sys.stdout = old


# ---------------------------------------------------------------------------
# accumulator

class Acc:
    """What one shard (or the whole run, after merging) covered and found."""

    MAX_OUTCOMES = 200000

    def __init__(self):
        self.evals = 0
        self.nontrivial = 0
        self.fam = collections.Counter()       # evaluations per family
        self.famnt = collections.Counter()     # non-trivial per family
        self.paths = collections.Counter()     # vacuity counters
        self.viol = {}                         # sig -> [count, (idx, record)]
        self.outcomes = set()
        self.samples = {}                      # family -> [(rank, case)]
        self.capped = []                       # names of families that hit a cap
        self.states = 0
        self.transitions = 0
        self.validated = 0
        self.notes = {}                        # free-form, family -> info
        self.errors = []                       # harness errors (not violations)

    # -- recording --------------------------------------------------------
    def case(self, family, n=1):
        self.evals += n
        self.fam[family] += n

    def nt(self, family, n=1):
        self.nontrivial += n
        self.famnt[family] += n

    def path(self, name, n=1):
        self.paths[name] += n

    def outcome(self, x):
        if len(self.outcomes) < self.MAX_OUTCOMES:
            self.outcomes.add(digest(x))

    def sample(self, family, idx, case):
        rank = ((idx + 1) * 2654435761 + SEED * 40503) % 1000003
        cur = self.samples.setdefault(family, [])
        if len(cur) < 2 or rank < cur[-1][0]:
            cur.append((rank, jsonable(case)))
            cur.sort(key=lambda t: t[0])
            del cur[2:]

    def violation(self, family, symptom, features, fn, case, expected=None,
                  observed=None, idx=0):
        feats = tuple(sorted(set(features)))
        sig = (family, symptom, feats)
        rec = dict(family=family, symptom=symptom, features=list(feats), fn=fn,
                   case=jsonable(case), expected=jsonable(expected),
                   observed=jsonable(observed))
        cur = self.viol.get(sig)
        if cur is None:
            self.viol[sig] = [1, (idx, rec)]
        else:
            cur[0] += 1
            if idx < cur[1][0]:
                cur[1] = (idx, rec)

    # -- merging ----------------------------------------------------------
    def merge(self, o):
        self.evals += o.evals
        self.nontrivial += o.nontrivial
        self.fam.update(o.fam)
        self.famnt.update(o.famnt)
        self.paths.update(o.paths)
        for sig, (n, first) in o.viol.items():
            cur = self.viol.get(sig)
            if cur is None:
                self.viol[sig] = [n, first]
            else:
                cur[0] += n
                if first[0] < cur[1][0]:
                    cur[1] = first
        if len(self.outcomes) < self.MAX_OUTCOMES:
            self.outcomes |= o.outcomes
        for f, lst in o.samples.items():
            cur = self.samples.setdefault(f, [])
            cur.extend(lst)
            cur.sort(key=lambda t: t[0])
            del cur[2:]
        self.capped.extend(o.capped)
        self.states += o.states
        self.transitions += o.transitions
        self.validated += o.validated
        for k, v in o.notes.items():
            self.notes.setdefault(k, v)
        self.errors.extend(o.errors)


# ---------------------------------------------------------------------------
# process pool

_pool = None


def _winit():
    global _DEVNULL
    warnings.simplefilter("ignore")
    _DEVNULL = open(os.devnull, "w")
    sys.stdout = _DEVNULL
    # children must not inherit the parent's scratch dir bookkeeping
    global _scratch
    _scratch = None


def pool():
    global _pool
    if _pool is None:
        ctx = multiprocessing.get_context("fork")
        _pool = ctx.Pool(NPROC, initializer=_winit)
        atexit.register(close_pool)
    return _pool


def close_pool():
    global _pool
    if _pool is not None:
        try:
            _pool.close()
            _pool.join()
        except Exception:
            _pool.terminate()
        _pool = None


def _reset_process_state():
    """Sources of cross-case leakage owned by the harness."""
    try:
        from fibertree import Metrics
        if Metrics.isCollecting():
            Metrics.endCollect()
    except Exception:
        pass


def _shard_call(args):
    fn, shard, nshards, params = args
    acc = Acc()
    st = random.getstate()
    try:
        fn(acc, shard, nshards, params)
    except BaseException as ex:  # harness failure: never silently dropped
        acc.errors.append("%s shard %d: %s" % (
            getattr(fn, "__name__", fn), shard,
            "".join(traceback.format_exception(type(ex), ex, ex.__traceback__))[-3000:]))
    finally:
        random.setstate(st)
        _reset_process_state()
        _rm_scratch_now()
    return acc


def run_shards(acc, fn, params=None, nshards=None, serial=False):
    """Run fn(acc_k, shard_k, nshards, params) for every shard and merge.

    fn must enumerate its universe deterministically and handle the cases
    whose index i satisfies owns(i, shard, nshards)."""
    if nshards is None:
        nshards = NPROC * 4
    jobs = [(fn, k, nshards, params) for k in range(nshards)]
    if serial or NPROC == 1:
        with quiet():
            res = [_shard_call(j) for j in jobs]
    else:
        res = pool().imap_unordered(_shard_call, jobs)
    for a in res:
        acc.merge(a)


def owns(idx, shard, nshards):
    return (idx + SEED) % nshards == shard


CUR = Acc()   # accumulator the case functions report telemetry to
QUICK_HINT = False   # set by a property's run() before forking when quick-tier case functions trim their inner menus


CASE_CPU_LIMIT = int(os.environ.get("VERIF_CASE_CPU_LIMIT") or 15)


class CaseTimeout(BaseException):
    pass


def _case_timeout(signum, frame):
    raise CaseTimeout()


signal.signal(signal.SIGVTALRM, _case_timeout)


def drive(acc, fn_name, fn, cases, shard, nshards, family=None, deadline=None,
          sample=True):
    """Enumerate `cases` (deterministic order), run the shard's share through
    the case function and record what it yields.

    fn(case) yields (family, symptom, features, expected, observed) tuples and
    may call core.CUR.nt()/path()/outcome() for coverage telemetry."""
    global CUR
    CUR = acc
    family = family or fn_name
    nown = 0
    for idx, case in enumerate(cases):
        if not owns(idx, shard, nshards):
            continue
        nown += 1
        if deadline is not None and (nown & 15) == 0 and time.time() > deadline:
            acc.capped.append(family)
            break
        acc.case(family)
        if sample:
            acc.sample(family, idx, case)
        try:
            # a case that burns CASE_CPU_LIMIT seconds of this worker's own CPU time (cases take milliseconds; the
            # slowest, an image rendering, about a second) is a library call that does not return: reported as a
            # violation with the case as replay, instead of hanging the run until the wall-clock watchdog.  CPU time of
            # the process, not wall time: a loaded machine cannot trip it.
            signal.setitimer(signal.ITIMER_VIRTUAL, CASE_CPU_LIMIT)
            try:
                out = fn(case)
            finally:
                signal.setitimer(signal.ITIMER_VIRTUAL, 0)
            if out is not None:
                for (fam, sym, feats, exp, obs) in out:
                    acc.violation(fam, sym, feats, fn_name, case, exp, obs, idx)
        except CaseTimeout:
            acc.violation(family, "no-result:call-does-not-return", ["cpu-seconds>%d" % CASE_CPU_LIMIT],
                          fn_name, case, "a result", "still running after %d s of CPU time" % CASE_CPU_LIMIT, idx)
            # one per shard is enough (every further one would cost the same CPU time again): the family is cut here
            acc.capped.append(family)
            break
        except (Exception, SystemExit) as ex:
            # the case function lets library exceptions escape only when it
            # has no better classification for them
            acc.violation(family, "exception:" + type(ex).__name__, ["uncaught"],
                          fn_name, case, None, tb_tail(ex), idx)


def tb_tail(ex, n=3):
    tb = traceback.extract_tb(ex.__traceback__)
    where = ["%s:%d:%s" % (os.path.basename(f.filename), f.lineno, f.name) for f in tb[-n:]]
    return "%s: %s @ %s" % (type(ex).__name__, str(ex)[:200], " < ".join(reversed(where)))


def exc_site(ex):
    """Innermost frame inside the library: used as a trigger feature."""
    tb = traceback.extract_tb(ex.__traceback__)
    for f in reversed(tb):
        if "/fibertree/" in f.filename:
            return "%s:%s" % (os.path.basename(f.filename), f.name)
    return "harness"


def pmap(fn, items, chunksize=1):
    """Plain parallel map (used by the BFS explorer)."""
    if NPROC == 1:
        with quiet():
            return [fn(x) for x in items]
    return pool().map(fn, items, chunksize)


# ---------------------------------------------------------------------------
# known findings

def load_known():
    p = os.path.join(VERIF, "known_findings.json")
    if not os.path.exists(p):
        return []
    with open(p) as f:
        return json.load(f).get("findings", [])


def match_known(pid, sig, known):
    family, symptom, feats = sig
    for e in known:
        if e.get("status") != "open" or e.get("property") != pid:
            continue
        if e.get("family") != family or e.get("symptom") != symptom:
            continue
        if not set(e.get("requires", [])) <= set(feats):
            continue
        if set(e.get("forbids", [])) & set(feats):
            continue
        return e
    return None


# ---------------------------------------------------------------------------
# run context

class Ctx:
    def __init__(self, pid, tier):
        self.pid = pid
        self.tier = tier
        self.seed = SEED
        self.acc = Acc()
        self.t0 = time.time()
        self.level = "exploration"
        self.rule = ""
        self.assumptions = []
        self.bounds = {}
        self.extra = {}
        self.exhaustive = True

    @property
    def quick(self):
        return self.tier == "quick"

    def elapsed(self):
        return time.time() - self.t0

    def shards(self, fn, params=None, nshards=None, serial=False):
        run_shards(self.acc, fn, params, nshards, serial)

    # -- finishing ----------------------------------------------------------
    def finish(self):
        acc = self.acc
        known = load_known()
        unknown, seen_known = [], collections.OrderedDict()
        rdir = os.path.join(VERIF, "replays", self.pid)
        for sig, (n, (idx, rec)) in sorted(acc.viol.items(), key=lambda kv: (kv[1][1][0], repr(kv[0]))):
            rec = dict(rec, property=self.pid, count=n, index=idx)
            e = match_known(self.pid, sig, known)
            os.makedirs(rdir, exist_ok=True)
            path = os.path.join(rdir, hexdigest(sig) + ".json")
            with open(path, "w") as f:
                json.dump(rec, f, indent=1, sort_keys=True)
            if e is None:
                unknown.append((sig, n, path, rec))
            else:
                k = e.get("id", e.get("what"))
                cur = seen_known.setdefault(k, [e, 0, path])
                cur[1] += n
        for k, (e, n, path) in seen_known.items():
            print("KNOWN-FINDING: property=%s %s: %s (%d cases this run, e.g. %s)" % (
                self.pid, k, e.get("what", ""), n, os.path.relpath(path, VERIF)))
        for msg in acc.errors:
            print("HARNESS-ERROR property=%s %s" % (self.pid, msg))
        for sig, n, path, rec in unknown[:40]:
            print("VIOLATION property=%s replay=%s" % (self.pid, path))
            print("   family=%s symptom=%s features=%s cases=%d" % (sig[0], sig[1], ",".join(sig[2]), n))
            print("   case=%s" % json.dumps(rec["case"])[:600])
            print("   expected=%s" % json.dumps(rec["expected"])[:400])
            print("   observed=%s" % json.dumps(rec["observed"])[:400])
        if len(unknown) > 40:
            print("   ... and %d more violation signatures" % (len(unknown) - 40))
        self._write_evidence(len(unknown), sum(n for _, n, _, _ in unknown), seen_known)
        wall = self.elapsed()
        print("%s tier=%s seed=%d evaluations=%d nontrivial=%d states=%d transitions=%d outcomes=%d "
              "violation_signatures=%d known=%d exhaustive=%s wall=%.1fs" % (
                  self.pid, self.tier, self.seed, acc.evals, acc.nontrivial, acc.states,
                  acc.transitions, len(acc.outcomes), len(unknown), len(seen_known),
                  self.exhaustive and not acc.capped, wall))
        if acc.errors:
            return 2
        return 1 if unknown else 0

    def _write_evidence(self, nsig, nviol, seen_known):
        acc = self.acc
        samples = []
        for fam in sorted(acc.samples):
            for _, c in acc.samples[fam]:
                samples.append({"family": fam, "case": c})
        cov = {
            "evaluations": acc.evals,
            "distinct_nontrivial": acc.nontrivial,
            "rule": self.rule,
            "samples": samples[:60],
            "exhaustive": bool(self.exhaustive and not acc.capped),
            "per_family_evaluations": dict(sorted(acc.fam.items())),
            "per_family_nontrivial": dict(sorted(acc.famnt.items())),
            "path_counters": dict(sorted(acc.paths.items())),
            "distinct_outcomes": len(acc.outcomes),
            "bounds": self.bounds,
            "capped_families": sorted(set(acc.capped)),
            "known_findings_seen": {k: v[1] for k, v in seen_known.items()},
            "violation_signatures": nsig,
            "processes": NPROC,
        }
        if acc.states:
            cov["states"] = acc.states
            cov["transitions"] = acc.transitions
            cov["traces_validated_against_impl"] = acc.validated
        cov.update(self.extra)
        for k, v in acc.notes.items():
            cov.setdefault("notes", {})[k] = jsonable(v)
        ev = {
            "property_id": self.pid,
            "tier": self.tier,
            "seed": self.seed,
            "level": self.level,
            "coverage": cov,
            "assumptions": self.assumptions,
            "wall_s": round(self.elapsed(), 2),
            "violations": nviol,
        }
        # the committed evidence describes full runs against /repo only: a run restricted with --only, or pointed at
        # another checkout with VERIF_REPO (mutants, seeded changes), writes its evidence next to it instead
        partial = bool(getattr(self, "only", None)) or os.path.realpath(REPO) != "/repo"
        d = os.path.join(VERIF, "evidence-scratch" if partial else "evidence")
        os.makedirs(d, exist_ok=True)
        tmp = os.path.join(d, ".%s.json.%d" % (self.pid, os.getpid()))
        with open(tmp, "w") as f:
            json.dump(ev, f, indent=1, sort_keys=True)
        os.replace(tmp, os.path.join(d, self.pid + ".json"))

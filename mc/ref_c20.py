"""Reference model for C20 (codec).  Plain Python over tree specs (see mc.univ);
imports nothing from fibertree.

Layouts as documented in fibertree/codec/compression_types.py and the format
classes:
  U  implicit positions: one payload slot per coordinate of the shape, no
     coordinates stored; fibers serialized in position order;
  C  explicit sorted coordinates, one per non-empty element;
  B  untruncated bit mask of `shape` bits, payloads compressed (one per set bit);
  an interior rank whose *next* rank is C or B stores, per element, the
  cumulative occupancy of its children (segment ends, restarting in every
  fiber); the root's single payload is the occupancy of the top fiber; children
  of a rank whose next rank is U are found by position and store nothing.
Fibers of one rank are serialized in depth-first order."""
import math


def leaf_value(point, tag=1):
    """mc.univ.mktree's position tag for a 'v' cell."""
    v = tag
    for c in point:
        v = v * 10 + c + 1
    return v


def decode(out, ids, desc, dims):
    """Independent decoder: per-rank coords_* / payloads_* arrays -> content
    (dict point -> non-zero value).  Raises ValueError if an array is too short
    for the layout."""
    D = len(ids)
    cc, cp = [0] * D, [0] * D
    res = {}

    def take(arr, pos, d, n, what):
        seg = arr[pos[d]:pos[d] + n]
        if len(seg) != n:
            raise ValueError("rank %d: %s array too short" % (d, what))
        pos[d] += n
        return seg

    def rec(d, prefix, count):
        ck = out["coords_" + ids[d].lower()]
        pk = out["payloads_" + ids[d].lower()]
        fmt, S, leaf = desc[d], dims[d], d == D - 1
        if fmt == "U":
            coords = list(range(S))
        elif fmt == "C":
            coords = take(ck, cc, d, count, "coords")
        else:
            mask = take(ck, cc, d, S, "mask")
            coords = [i for i, b in enumerate(mask) if b]
            if len(coords) != count:
                raise ValueError("rank %d: mask population %d, segment length %r" % (d, len(coords), count))
        n = len(coords)
        if leaf:
            for c, v in zip(coords, take(pk, cp, d, n, "payloads")):
                if v != 0:
                    res[prefix + (c,)] = v
        elif desc[d + 1] in "CB":
            prev = 0
            for c, o in zip(coords, take(pk, cp, d, n, "occupancies")):
                rec(d + 1, prefix + (c,), o - prev)
                prev = o
        else:
            for c in coords:
                rec(d + 1, prefix + (c,), None)

    count = None
    if desc[0] in "CB":
        if len(out["payloads_root"]) != 1:
            raise ValueError("payloads_root %r" % (out["payloads_root"],))
        count = out["payloads_root"][0]
    rec(0, (), count)
    return res


class Model:
    """What each encoded fiber consists of, from the tree spec alone.
    ranks[l] lists the fibers of rank l in serialization order; each entry has
    coords (presented coordinates), values (leaf) or children (positions in
    rank l+1)."""

    def __init__(self, tree, depth, dims, desc):
        self.depth, self.dims, self.desc = depth, dims, desc
        self.ranks = [[] for _ in range(depth)]
        self._rec(tree, 0, ())

    def _nonempty(self, node, l):
        if node is None:
            return False
        if l == self.depth - 1:
            return any(x != '-' for x in node)
        return any(self._nonempty(x, l + 1) for x in node)

    def _present(self, node, l):
        if self.desc[l] == "U":
            return list(range(self.dims[l]))
        if node is None:
            return []
        if l == self.depth - 1:
            return [i for i, x in enumerate(node) if x != '-']
        return [i for i, x in enumerate(node) if self._nonempty(x, l + 1)]

    def _rec(self, node, l, path):
        ent = {"path": path, "coords": self._present(node, l), "children": [], "values": []}
        self.ranks[l].append(ent)

        def child(i):
            return node[i] if node is not None and i < len(node) else None
        if l < self.depth - 1:
            for i in ent["coords"]:
                ent["children"].append(len(self.ranks[l + 1]))
                self._rec(child(i), l + 1, path + (i,))
        else:
            for i in ent["coords"]:
                x = child(i)
                ent["values"].append(leaf_value(path + (i,)) if x is not None and x != '-' else 0)

    def size(self, ent, l):
        """Words the fiber object stores, read literally from the property's
        list: coordinates (or ceil(mask bits / 32) mask words) + occupancy
        entries + payload entries.  Payload entries are leaf values or, for a
        C / B fiber whose next rank needs explicit upper payloads, its child
        handles; a U fiber holds its children by position (no payload entries)
        and so does any fiber whose next rank is U."""
        leaf = l == self.depth - 1
        n, S = len(ent["coords"]), self.dims[l]
        explicit_next = (not leaf) and self.desc[l + 1] in "CB"
        occ = (S if self.desc[l] == "U" else n) if explicit_next else 0
        if self.desc[l] == "U":
            return occ + (S if leaf else 0)
        pay = n if (leaf or explicit_next) else 0
        if self.desc[l] == "C":
            return n + occ + pay
        return math.ceil(S / 32) + occ + pay

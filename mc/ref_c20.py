"""Reference model for C20 (codec).  Plain Python over the codec's per-rank
output arrays; imports nothing from fibertree.

Layouts as documented in fibertree/codec/compression_types.py and the format
classes:
  U  implicit positions: one payload slot per coordinate of the shape, no
     coordinates stored; fibers serialized in position order;
  C  explicit sorted coordinates, one per non-empty element;
  B  untruncated bit mask of `shape` bits, payloads compressed (one per set bit);
  an interior rank whose *next* rank is C or B stores, per element, the
  cumulative occupancy of its children (segment ends, restarting in every
  fiber); the root's single payload is the occupancy of the top fiber; children
  of a rank whose next rank is U are found by position and store nothing.
Fibers of one rank are serialized in depth-first order."""
import math


def decode(out, ids, desc, dims, default=0):
    """Independent decoder: per-rank coords_* / payloads_* arrays ->
    (content, ranks).  content is the dict point -> value of every stored leaf
    word that differs from the tensor's leaf default (a position that stores
    nothing reads as that default, so a stored default and an absent position
    are the same content; with the usual default 0: point -> non-zero value;
    under a non-zero default a stored 0 is an ordinary element); ranks[l]
    lists the fibers of rank l in serialization order, each a dict with
    `coords` (the coordinates the layout presents), `values` (leaf rank) or
    `children` (positions of the child fibers in rank l+1).  Raises ValueError
    if an array is too short for the layout."""
    D = len(ids)
    cc, cp = [0] * D, [0] * D
    res = {}
    ranks = [[] for _ in range(D)]

    def take(arr, pos, d, n, what):
        seg = arr[pos[d]:pos[d] + n]
        if len(seg) != n:
            raise ValueError("rank %d: %s array too short" % (d, what))
        pos[d] += n
        return seg

    def rec(d, prefix, count):
        ck = out["coords_" + ids[d].lower()]
        pk = out["payloads_" + ids[d].lower()]
        fmt, S, leaf = desc[d], dims[d], d == D - 1
        if fmt == "U":
            coords = list(range(S))
        elif fmt == "C":
            coords = list(take(ck, cc, d, count, "coords"))
        else:
            mask = take(ck, cc, d, S, "mask")
            coords = [i for i, b in enumerate(mask) if b]
            if len(coords) != count:
                raise ValueError("rank %d: mask population %d, segment length %r" % (d, len(coords), count))
        n = len(coords)
        ent = {"path": prefix, "coords": coords, "values": [], "children": []}
        ranks[d].append(ent)
        if leaf:
            ent["values"] = list(take(pk, cp, d, n, "payloads"))
            for c, v in zip(coords, ent["values"]):
                if v != default:
                    res[prefix + (c,)] = v
        elif desc[d + 1] in "CB":
            prev = 0
            for c, o in zip(coords, take(pk, cp, d, n, "occupancies")):
                if not isinstance(o, int) or o < prev:
                    raise ValueError("rank %d: occupancies not cumulative" % d)
                ent["children"].append(len(ranks[d + 1]))
                rec(d + 1, prefix + (c,), o - prev)
                prev = o
        else:
            for c in coords:
                ent["children"].append(len(ranks[d + 1]))
                rec(d + 1, prefix + (c,), None)

    count = None
    if desc[0] in "CB":
        if len(out["payloads_root"]) != 1:
            raise ValueError("payloads_root %r" % (out["payloads_root"],))
        count = out["payloads_root"][0]
    rec(0, (), count)
    return res, ranks


def size(ent, l, desc, dims):
    """Words the fiber object stores, read literally from the property's
    list: coordinates (or ceil(mask bits / 32) mask words) + occupancy
    entries + payload entries.  Payload entries are leaf values or, for a
    C / B fiber whose next rank needs explicit upper payloads, its child
    handles; a U fiber holds its children by position (no payload entries)
    and so does any fiber whose next rank is U."""
    leaf = l == len(desc) - 1
    n, S = len(ent["coords"]), dims[l]
    explicit_next = (not leaf) and desc[l + 1] in "CB"
    occ = (S if desc[l] == "U" else n) if explicit_next else 0
    if desc[l] == "U":
        return occ + (S if leaf else 0)
    pay = n if (leaf or explicit_next) else 0
    if desc[l] == "C":
        return n + occ + pay
    return math.ceil(S / 32) + occ + pay

"""C01 - fibertrees stay well-formed under every history of public mutations.

E1: breadth-first search over histories of public mutators (legal and illegal
argument choices) on real fibers / tensors; the well-formedness predicate is
evaluated after every single transition, including rejected ones, and a
transition rejected for coordinate order must leave the raw tree unchanged."""
import itertools
import time

from fibertree import Fiber, Tensor, Payload, CoordPayload
from fibertree.core.fiber import CoordinateError

from mc import bfs, core
from mc.obs import rawtree, rawfull, wf, interior_depths_ok, rank_index_view, hidden_globals, hidden_tensor
from mc.univ import mktree, RANK_IDS

LEVEL = "model_checking"
RULE = ("states = canonical raw tree (+ saved positions, active ranges, declared shape, rank lists) reached by BFS over "
        "every enabled public mutator with every argument choice of the alphabet (legal and illegal positions / "
        "coordinates); the well-formedness invariant is evaluated on every transition; distinct_nontrivial = "
        "number of distinct states")
ASSUMPTIONS = [
    "coordinates 0..N (N=3 for 1-D fibers, 2 per rank for depth 2), leaf values kept in {0,1,2} by the driver so the state space is finite",
    "coordinate functions passed to updateCoords are injective (documented precondition); payload functions return boxed payloads",
    "interior fibers only ever receive fibers as payloads from the driver (appending a scalar to an interior fiber is a caller error, not a library fault)",
    "the empty operand of an interior fiber assignment (f <<= g) comes from an empty tensor: an unowned Fiber() is depth-ambiguous (guessed default 0) and assigning it to an interior fiber is a caller type error",
]

VMAX = 2
SPEC = "mc.props.c01"

SMALL = [((), ()), ((0,), (1,)), ((1,), (1,)), ((0, 2), (1, 1)), ((1,), (0,))]
SMALL2 = [((), ()), ((0,), (((1,), (1,)),)), ((0, 1), (((0,), (1,)), ((0, 1), (0, 1)))), ((1,), (((), ()),))]


class St:
    pass


def build(init):
    kind, depth, n, spec, owned = init
    S = St()
    S.depth, S.n, S.owned = depth, n, owned
    if depth == 1:
        cs = [i for i, x in enumerate(spec) if x != '-']
        ps = [int(spec[i]) for i in cs]
        if owned:
            S.T = Tensor.fromFiber(["M"], Fiber(cs, ps), shape=[n])
            S.root = S.T.getRoot()
        else:
            S.T = None
            S.root = Fiber(cs, ps, shape=n) if kind == "shaped" else Fiber(cs, ps)
    else:
        root = mktree(spec, depth, tag=0) if spec is not None else Fiber()
        if owned:
            S.T = Tensor.fromFiber(list(RANK_IDS[:depth]), root, shape=[n] * depth)
            S.root = S.T.getRoot()
        else:
            S.T = None
            S.root = root
    return S


def _keep(S, g):
    """Operand fibers handed to an operation stay alive (the caller's objects):
    the tree may not share storage lists with them."""
    S.guests = (getattr(S, "guests", []) + [g])[-3:]
    return g


def _all_fibers(f, out):
    out.append(f)
    for p in f.payloads:
        if isinstance(p, Fiber):
            _all_fibers(p, out)
    return out


def _shared_lists(S):
    """None, or a reason: two distinct fibers (of the tree, or the tree and a
    kept operand) share one coords or payloads list object."""
    fibs = _all_fibers(S.root, [])
    mine = {id(f) for f in fibs}
    for g in getattr(S, "guests", []):
        for x in _all_fibers(g, []):
            if id(x) not in mine:
                fibs.append(x)
                mine.add(id(x))
    seen = {}
    for f in fibs:
        for what, lst in (("coords", f.coords), ("payloads", f.payloads)):
            if not isinstance(lst, list):
                continue
            if id(lst) in seen and seen[id(lst)][0] is not f:
                return "shared-%s-list" % what
            seen[id(lst)] = (f, what)
    return None


def _fiber_at(root, path):
    f = root
    for c in path:
        f = f.payloads[f.coords.index(c)]
    return f


def _paths(f, prefix=()):
    out = [(prefix, f)]
    for c, p in zip(f.coords, f.payloads):
        if isinstance(p, Fiber):
            out.extend(_paths(p, prefix + (c,)))
    return out


def _leafvals(f):
    out = []
    for p in f.payloads:
        if isinstance(p, Fiber):
            out.extend(_leafvals(p))
        elif isinstance(p, Payload) and isinstance(p.value, int):
            out.append(p.value)
    return out


def _mkf(g):
    return Fiber(list(g[0]), list(g[1]))


def _mkf2(g):
    if not g[0]:
        # An unowned Fiber() is depth-ambiguous (its guessed default is the scalar
        # 0); the empty depth-2 operand is therefore taken from an empty tensor,
        # where the rank default says that its payloads are fibers.
        return Tensor(rank_ids=["A", "B"]).getRoot()
    return Fiber(list(g[0]), [Fiber(list(x[0]), list(x[1])) for x in g[1]])


def _leaf_ops(path, f, N, full):
    """Mutator alphabet on a leaf-level fiber (DESIGN C01 / probe q21)."""
    vals = [p.value for p in f.payloads if isinstance(p, Payload)]
    mx = max(vals + [0])
    out = []
    for c in range(N + 1):
        out.append(("ref", path, c, "none"))
        out.append(("ref", path, c, "set1"))
        out.append(("ref", path, c, "set0"))
        i = f.coords.index(c) if c in f.coords else None
        if (vals[i] if i is not None and i < len(vals) else 0) < VMAX:
            out.append(("ref", path, c, "inc"))
        out.append(("posref", path, c))
        # the same look-ups with every *legal* search-start hint (a stored position whose coordinate is not above
        # the one looked up).  A hint to the right of the coordinate is outside the precondition of the shortcut: on
        # the unchanged tree getPositionRef(0, start_pos=1) on coordinates [0, 1] appends a second 0.
        for sp in range(len(f.coords)):
            if f.coords[sp] > c:
                break
            out.append(("posrefh", path, c, sp))
            if full:
                out.append(("refh", path, c, sp))
        for v in (0, 1):
            out.append(("append", path, c, v))
    # in-place arithmetic whose right operand is an element (CoordPayload) of the same fiber
    for pos in range(len(vals)):
        for c in (range(N + 1) if full else (0, N - 1)):
            i = f.coords.index(c) if c in f.coords else None
            cur = vals[i] if i is not None and i < len(vals) else 0
            if cur + vals[pos] <= VMAX:
                out.append(("refel", path, c, pos, "+="))
            if cur * vals[pos] <= VMAX:
                out.append(("refel", path, c, pos, "*="))
    for g in SMALL:
        out.append(("extend", path) + g)
    # positions count from the end as well (list indices): -1 is the last element, -(n+1) is out of range
    for pos in list(range(0, len(f.coords) + 1)) + [-1, -len(f.coords) - 1]:
        for v in (0, 1):
            out.append(("setv", path, pos, v))
        for c in (range(N + 1) if full else (0, N)):
            for v in ((None, 0, 1) if full else (None, 1)):
                out.append(("setcp", path, pos, c, v))
    if mx + 1 <= VMAX:
        out.append(("iadds", path, 1))
    out.append(("iadds", path, 0))
    out.append(("imuls", path, 1))
    out.append(("imuls", path, 0))
    if mx * 2 <= VMAX:
        out.append(("imuls", path, 2))
    for g in (SMALL if full else SMALL[1:4]):
        if mx + 1 <= VMAX:
            out.append(("iaddf", path) + g)
        out.append(("imulf", path) + g)
        out.append(("assign", path) + g)
    out.append(("assignu", path, (2, 0), (1, 1)))
    if full:
        out.append(("assignu", path, (1, 2, 0), (1, 1, 2)))
    srcs = [(0,), (1,), (0, 2), (0, 1, 2)] if full else [(1,), (0, 1)]
    for src in srcs:
        for body in itertools.product("naz", repeat=len(src)):
            out.append(("pop", path, src, body))
    out.append(("shaperef", path))
    for s, e, st, ab in [(0, N, 1, False), (0, N, 2, False), (1, N + 1, 1, True), (0, N, 1, True),
                         (N - 1, -1, -1, False), (N - 1, -1, -2, False), (N - 1, -1, -1, True)]:     # downwards too
        out.append(("rangeref", path, s, e, st, ab))
    # dense reference co-iteration in which the same fiber object occurs twice
    out.append(("corangeref", path, 0, N))
    if f.coords and max(f.coords) < N:
        out.append(("updc", path, "inc"))
    if f.coords and max(f.coords) <= N - 1:
        out.append(("updc", path, "rev"))
    if f.coords:
        out.append(("updc", path, "rot2"))
        if full:
            out.append(("updc", path, "rot1"))
    for fn in ("id", "dbl", "zero"):
        if fn != "dbl" or mx * 2 <= VMAX:
            out.append(("updp", path, fn))
    out.append(("clear", path))
    return out


def ops(S):
    N = S.n
    if S.depth == 1:
        return _leaf_ops((), S.root, N, True)
    if S.depth == 3:
        # reduced alphabet for 3-rank trees: references at every full and partial point, position references and
        # clear at every stored fiber (an insertion below an interior fiber must create fibers down to the leaf rank)
        out = []
        for ln in (1, 2, 3):
            for pt in itertools.product(range(N), repeat=ln):
                out.append(("ref2", pt, "none"))
                if ln == 3:
                    out.append(("ref2", pt, "set1"))
        for path, f in _paths(S.root):
            out.append(("clear", path))
            if len(path) < 2:
                for c in range(N):
                    out.append(("posref", path, c))
        return out
    out = []
    root = S.root
    mx = max(_leafvals(root) + [0])
    # interior alphabet on the root
    for m in range(N + 1):
        out.append(("ref2", (m,), "none"))
        out.append(("posref", (), m))
        for n in range(N):
            cur = 0
            if m in root.coords:
                sf = root.payloads[root.coords.index(m)]
                if isinstance(sf, Fiber) and n in sf.coords:
                    p = sf.payloads[sf.coords.index(n)]
                    cur = p.value if isinstance(p, Payload) and isinstance(p.value, int) else 0
            for act in ("none", "set1", "set0") + (("inc",) if cur < VMAX else ()):
                out.append(("ref2", (m, n), act))
        out.append(("appendf", m, 1))
        out.append(("appendf", m, 0))
    for g in SMALL2:
        out.append(("extend2",) + g)
        out.append(("assign2",) + g)
    for pos in range(len(root.coords) + 1):
        for c in range(N + 1):
            out.append(("setcp", (), pos, c, None))
        out.append(("setf", pos, 1))
    for src in [((0,), (((0, 1), (1, 1)),)), ((0, 1), (((1,), (1,)), ((0,), (1,))))]:
        nleaf = sum(len(x[0]) for x in src[1])
        for body in itertools.product("na", repeat=nleaf):
            out.append(("pop2", src, body))
        out.append(("pop2skip", src))
    out.append(("shaperef", ()))
    out.append(("rangeref", (), 0, N, 1, True))
    if root.coords and max(root.coords) < N:
        out.append(("updc", (), "inc"))
    if root.coords and max(root.coords) <= N - 1:
        out.append(("updc", (), "rev"))
    allc = [c for _, f in _paths(root)[1:] for c in f.coords]
    if allc and max(allc) < N:
        out.append(("updc1", "inc"))
    if allc and max(allc) <= N - 1:
        out.append(("updc1", "rev"))
    if allc:
        out.append(("updc1", "rot2"))
    if root.coords:
        out.append(("updc", (), "rot2"))
    for fn in ("id", "dbl", "zero"):
        if fn != "dbl" or mx * 2 <= VMAX:
            out.append(("updp1", fn))
    out.append(("clear", ()))
    # reduced leaf alphabet on every stored leaf fiber
    for path, f in _paths(root)[1:]:
        out.extend(_leaf_ops(path, f, N, False))
    return out


CFN = {"inc": lambda n: (lambda i, c, p: c + 1), "rev": lambda n: (lambda i, c, p: (n - 1) - c),
       # rotations of 0..n: injective, non-monotone (a descent somewhere in the middle), closed over the alphabet
       "rot2": lambda n: (lambda i, c, p: (c + 2) % (n + 1)), "rot1": lambda n: (lambda i, c, p: (c + 1) % (n + 1))}
PFN = {"id": lambda i, c, p: p, "dbl": lambda i, c, p: p * 2, "zero": lambda i, c, p: Payload(0)}


def _apply(S, op):
    k = op[0]
    N = S.n
    root = S.root
    if k == "ref2":
        r = root.getPayloadRef(*op[1])
        a = op[2]
        if a == "set1":
            r <<= 1
        elif a == "set0":
            r <<= 0
        elif a == "inc":
            r += 1
        return
    if k == "appendf":
        root.append(op[1], Fiber([0], [1]) if op[2] else Fiber())
        return
    if k == "extend2":
        root.extend(_keep(S, _mkf2(op[1:])))
        return
    if k == "assign2":
        root <<= _keep(S, _mkf2(op[1:]))
        return
    if k == "setf":
        root[op[1]] = Fiber([1], [1])
        return
    if k in ("pop2", "pop2skip"):
        a = _keep(S, _mkf2(op[1]))
        bi = iter(op[2]) if k == "pop2" else None
        for m, (z_n, a_n) in root << a:
            if k == "pop2skip":
                continue
            for n, (zr, av) in z_n << a_n:
                if next(bi) == "a":
                    zr <<= 1
        return
    if k == "updc1":
        root.updateCoords(CFN[op[1]](N), depth=1)
        return
    if k == "updp1":
        root.updatePayloads(PFN[op[1]], depth=1)
        return
    f = _fiber_at(root, op[1])
    if k == "ref":
        r = f.getPayloadRef(op[2])
        a = op[3]
        if a == "set1":
            r <<= 1
        elif a == "set0":
            r <<= 0
        elif a == "inc":
            r += 1
    elif k == "refel":
        el = f[op[3]]
        r = f.getPayloadRef(op[2])
        if op[4] == "+=":
            r += el
        else:
            r *= el
    elif k == "posref":
        f.getPositionRef(op[2])
    elif k == "posrefh":
        f.getPositionRef(op[2], start_pos=op[3])
    elif k == "refh":
        f.getPayloadRef(op[2], start_pos=op[3])
    elif k == "append":
        f.append(op[2], op[3])
    elif k == "extend":
        f.extend(_keep(S, _mkf(op[2:])))
    elif k == "setv":
        f[op[2]] = op[3]
    elif k == "setcp":
        f[op[2]] = CoordPayload(op[3], op[4])
    elif k == "iadds":
        f += op[2]
    elif k == "imuls":
        f *= op[2]
    elif k == "iaddf":
        f += _keep(S, _mkf(op[2:]))
    elif k == "imulf":
        f *= _keep(S, _mkf(op[2:]))
    elif k == "assign":
        f <<= _keep(S, _mkf(op[2:]))
    elif k == "assignu":
        # the source is an unordered fiber (legal input); the destination stays ordered
        f <<= Fiber(list(op[2]), list(op[3]), ordered=False)
    elif k == "pop":
        a = Fiber(list(op[2]), [1] * len(op[2]))
        for (c, (zr, av)), act in zip(f << a, op[3]):
            if act == "a":
                zr <<= 1
            elif act == "z":
                zr <<= 0
    elif k == "shaperef":
        for _ in f.iterShapeRef():
            pass
    elif k == "rangeref":
        for i, _ in enumerate(f.iterRangeShapeRef(op[2], op[3], op[4])):
            if op[5] and i == 0:
                break
    elif k == "corangeref":
        for _ in Fiber.coiterRangeShapeRef([f, f], op[2], op[3]):
            pass
    elif k == "updc":
        f.updateCoords(CFN[op[2]](N))
    elif k == "updp":
        f.updatePayloads(PFN[op[2]])
    elif k == "clear":
        f.clear()
    else:
        raise ValueError(op)


ORDER_REJECT = ("append", "extend", "appendf", "extend2")


def step(S, op):
    out = []
    before = rawtree(S.root)
    err = None
    try:
        _apply(S, op)
    except Exception as ex:
        err = ex
    feats = {"depth:%d" % S.depth, "owned" if S.owned else "unowned"}
    if err is not None:
        feats.add("rejected:" + type(err).__name__)
    w = wf(S.root)
    if w is None and S.depth > 1:
        w = interior_depths_ok(S.root, S.depth)
    if w:
        out.append((op[0], "ill-formed:" + w.split("@")[0], feats, None, rawtree(S.root)))
    else:
        sh = _shared_lists(S)
        if sh:
            out.append((op[0], "ill-formed:" + sh, feats, None, rawtree(S.root)))
        for g in getattr(S, "guests", []):
            if len(g.coords) != len(g.payloads):
                out.append((op[0], "operand-ill-formed:length-mismatch", feats, None, rawtree(S.root)))
                break
    if err is not None:
        order_reject = isinstance(err, CoordinateError) or \
            (isinstance(err, AssertionError) and op[0] in ORDER_REJECT)
        if order_reject and rawtree(S.root) != before:
            out.append((op[0], "rejected-but-changed", feats, before, rawtree(S.root)))
        core_types = (IndexError, CoordinateError, AssertionError)
        if not isinstance(err, core_types):
            # an in-domain operation that dies with an unexpected error type is
            # recorded for the path counters, not as a violation of C01
            pass
    return out


def key(S):
    root = S.root
    sh = root.getRankAttrs().getShape()
    rk = rank_index_view(S.T) if S.T is not None else None
    return (rawfull(root), sh, rk, hidden_globals(), hidden_tensor(S.T))


CASES = {"history": bfs.replay_case}


def run(ctx):
    q = ctx.quick
    acc = ctx.acc
    fams = [
        ("d1-shaped-N3", [("shaped", 1, 3, s, False) for s in [('-', '-', '-'), ('1', '0', '2')]], None, 200),
        ("d1-owned-N3", [("shaped", 1, 3, s, True) for s in [('-', '-', '-'), ('0', '-', '1')]], 3 if q else None, 200),
        ("d1-noshape-N3", [("plain", 1, 3, s, False) for s in [('-', '-', '-'), ('1', '0', '2')]], 3 if q else 5, 200),
        ("d2-2x2-tensor", [("t", 2, 2, s, True) for s in
                           [None, (('0', '1'), None), (('-', '-'), ('1', '0')), (('1', '-'), ())]],
         2 if q else 4, 600),
        ("d3-2x2x2-tensor", [("t", 3, 2, s, True) for s in
                             [None, ((None, None), (('1', '-'), None)), (((), ('0', '1')), None)]], 2 if q else 3, 300),
        ("d2-2x2-unowned", [("t", 2, 2, s, False) for s in [(('0', '1'), None), ((), ('1', '1'))]],
         2 if q else 3, 400),
    ]
    ctx.bounds = {}
    for name, inits, maxd, budget in fams:
        if ctx.only and not any(name.startswith(o) for o in ctx.only):
            continue
        dl = time.time() + (budget if not q else 150)
        info = bfs.explore(acc, SPEC, inits, name, max_depth=maxd, deadline=dl)
        ctx.bounds[name] = dict(inits=len(inits), max_depth=maxd, **info)
    ctx.extra["exhaustive_note"] = ("fixpoint=true families cover histories of every length over the alphabet; "
                                    "others are complete up to max_depth (or to the depth reached when listed in capped_families)")

"""C05 - populate (z << a) offers exactly a's coordinates and keeps only what
was written.

E2 over inputs x programs: every destination tree, every source tree and every
loop body (a decision per offered reference: leave / assign / accumulate / set
back to the default; per offered sub-fiber: descend with a nested populate or
skip) of small universes, executed on the real iterator and compared step by
step with a nested-dict reference model."""
import itertools

from fibertree import Fiber, Tensor, Payload

from mc import core
from mc.obs import rawtree, rawtensor, rank_index_view, mirror, wf, content, unbox
from mc.univ import f1, t2, t3, mktree, tree_features, RANK_IDS

LEVEL = "exploration"
RULE = ("every (destination tree, source tree, loop body) triple of the stated universes; loop bodies are all assignments "
        "of {leave, <<=5, += a, <<=default} to the offered leaf references and of {descend, skip} to the offered "
        "sub-fibers; cases are distinct by construction; non-trivial = the source offers at least one coordinate and "
        "the body writes through at least one reference or the destination already stores something at an offered "
        "coordinate")
ASSUMPTIONS = [
    "coordinates 0..N-1 (N<=5 at depth 1, 2 per rank at depth 2-3); values position-tagged ints; start_pos is None",
    "the loop body only writes through the references it is offered (the property's model of a body)",
    "destinations of depth >= 2 are tensor roots (the populate idiom); unowned destinations are driven at depth 1 and at "
    "depth 2 with a non-empty root only: an unowned fiber guesses its default from its first payload (documented), so an "
    "empty unowned interior fiber, or an unowned tree needing two new levels, cannot know that its payloads are fibers",
]

LEAF_ACTS = "lszp"     # leave, set 5, zero (set default), plus (+= a)


# ---- reference model ---------------------------------------------------------
# model of a stored tree: depth 1 -> {coord: value}; deeper -> {coord: submodel}

def model_of(f):
    out = {}
    for c, p in zip(f.coords, f.payloads):
        out[c] = model_of(p) if isinstance(p, Fiber) else unbox(p)
    return out


def raw_of(model, d):
    cs = sorted(model)
    if d == 1:
        return (tuple(cs), tuple(model[c] for c in cs))
    return (tuple(cs), tuple(raw_of(model[c], d - 1) for c in cs))


def mcontent(model, d, default, prefix=()):
    out = {}
    for c, v in model.items():
        if d == 1:
            if v != default:
                out[prefix + (c,)] = v
        else:
            out.update(mcontent(v, d - 1, default, prefix + (c,)))
    return out


def nonempty_src(spec, d):
    if d == 1:
        return any(x not in '-0' for x in spec)
    return any(x is not None and nonempty_src(x, d - 1) for x in spec)


def bodies(spec, d, acts, offered=None):
    """All loop bodies for a populate driven by source `spec` (DFS order)."""
    if d == 1:
        n = len(offered) if offered is not None else sum(1 for x in spec if x not in '-0')
        return [tuple(b) for b in itertools.product(acts, repeat=n)]
    parts = []
    for x in spec:
        if x is None or not nonempty_src(x, d - 1):
            continue
        parts.append([("s",)] + [("d",) + b for b in bodies(x, d - 1, acts)])
    res = [()]
    for sub in parts:
        res = [r + s for r in res for s in sub]
    return res


class Mismatch(Exception):
    def __init__(self, symptom, exp, obs):
        self.symptom, self.exp, self.obs = symptom, exp, obs


def _during(z_root, T, depth):
    w = wf(z_root)
    if w:
        raise Mismatch("ill-formed-during-loop", None, [w, rawtree(z_root)])
    if T is not None:
        m = mirror(T)
        if m:
            raise Mismatch("rank-lists-during-loop", None, [m, rank_index_view(T)])


def run_level(z, a, d, body, model, default, offered, ctx):
    """Run one populate level on the real fibers, in lock-step with `model`
    (the stored structure of z).  `offered`: list of (coord, a's stored payload
    or None if a presents the coordinate without storing it)."""
    seen = []
    it = iter(z << a)
    for c, (zr, av) in it:
        seen.append(c)
        if len(seen) > len(offered) or offered[len(seen) - 1][0] != c:
            raise Mismatch("yield-sequence", [o[0] for o in offered], seen)
        a_obj = offered[len(seen) - 1][1]
        _during(ctx["root"], ctx["T"], ctx["depth"])
        if d == 1:
            if a_obj is not None and av is not a_obj:
                raise Mismatch("source-payload-identity", None, c)
            if a_obj is None and unbox(av) != ctx["a_default"]:
                raise Mismatch("source-default-value", ctx["a_default"], unbox(av))
            cur = model.get(c, default)
            if not isinstance(zr, Payload) or zr.value != cur:
                raise Mismatch("reference-shows-wrong-value", cur, repr(zr))
            act = next(body)
            if act == "s":
                zr <<= 5
                v = 5
            elif act == "z":
                zr <<= default
                v = default
            elif act == "p":
                zr += av
                v = cur + unbox(av)
            else:
                v = cur
            if act != "l":
                ctx["wrote"] = True
            if c in model:
                ctx["touched_existing"] = True
            if v == default:
                model.pop(c, None)
            else:
                model[c] = v
        else:
            if av is not a_obj:
                raise Mismatch("source-payload-identity", None, c)
            existed = c in model
            sub = model.get(c, {})
            if not isinstance(zr, Fiber):
                raise Mismatch("reference-not-a-fiber", None, repr(zr))
            if rawtree(zr) != raw_of(sub, d - 1):
                raise Mismatch("reference-shows-wrong-subtree", raw_of(sub, d - 1), rawtree(zr))
            if existed:
                ctx["touched_existing"] = True
            act = next(body)
            if act == "d":
                sub = dict(sub) if not existed else sub
                run_level(zr, a_obj, d - 1, body, sub, default,
                          _offered(a_obj, d - 1, None), ctx)
                if existed or len(sub) > 0:
                    model[c] = sub
            # skipped: a new sub-fiber must vanish, an existing one stays as it was
    if seen != [o[0] for o in offered]:
        raise Mismatch("yield-sequence", [o[0] for o in offered], seen)


def _offered(a, d, urange):
    """Coordinates a presents, with its stored payload objects."""
    if urange is not None:
        st = dict(zip(a.coords, a.payloads))
        return [(c, st.get(c)) for c in range(*urange)]
    out = []
    for c, p in zip(a.coords, a.payloads):
        if isinstance(p, Fiber):
            if content(p):
                out.append((c, p))
        elif unbox(p) != 0:
            out.append((c, p))
    return out


def _outside_ids(z, offered_coords):
    return {c: p for c, p in zip(z.coords, z.payloads) if c not in offered_coords}


def check_populate(zspec, aspec, d, body, owned, default=0, afmt="C", arange=None, n=None, zupper="C"):
    out = []
    feats = {"depth:%d" % d, "owned" if owned else "unowned"}
    if zupper != "C":
        feats.add("destination_upper_ranks_uncompressed")
    feats |= {"z:" + f for f in tree_features(zspec, d)} if d > 1 else set()
    if d == 1 and '0' in zspec:
        feats.add("z:explicit_default")
    if default != 0:
        feats.add("nonzero_default")
    if afmt == "U":
        feats.add("source_uncompressed")
    shape = [n or len(zspec)] * d if d == 1 else [2] * d
    if d == 1:
        zroot = _mk1(zspec, 1, default)
        a = _mk1(aspec, 2, 0)
        if afmt == "U":
            a = _mk1(aspec, 2, 0, shape=shape[0], active=arange)
            a.getRankAttrs().setFormat("U")
    else:
        zroot = mktree(zspec, d, tag=1, default=default)
        a = mktree(aspec, d, tag=2)
    T = None
    if owned:
        T = Tensor.fromFiber(list(RANK_IDS[:d]), zroot, shape=shape, default=default)
        for rid in RANK_IDS[:d - 1]:
            if zupper != "C":
                T.setFormat(rid, zupper)
        zroot = T.getRoot()
    araw = rawtree(a)
    model = model_of(zroot)
    before = dict(model) if d == 1 else None
    urange = None
    if afmt == "U":
        urange = arange if arange is not None else (0, shape[0])
    offered = _offered(a, d, urange)
    outside = _outside_ids(zroot, {o[0] for o in offered})
    ctx = {"root": zroot, "T": T, "depth": d, "a_default": 0, "wrote": False, "touched_existing": False}
    try:
        run_level(zroot, a, d, iter(body), model, default, offered, ctx)
        got = rawtree(zroot)
        exp = raw_of(model, d)
        if got != exp:
            sym = "content" if content(zroot, default) != mcontent(model, d, default) else "left-behind-or-lost-element"
            out.append(("populate", sym, feats, exp, got))
        for c, p in outside.items():
            if c not in zroot.coords or zroot.payloads[zroot.coords.index(c)] is not p:
                out.append(("populate", "element-outside-source-touched", feats, None, c))
                break
        if rawtree(a) != araw:
            out.append(("populate", "source-modified", feats, araw, rawtree(a)))
        w = wf(zroot)
        if w:
            out.append(("populate", "ill-formed-after-loop", feats, None, [w, got]))
        if T is not None:
            m = mirror(T)
            if m:
                out.append(("populate", "rank-lists-after-loop:" + m, feats, None, rank_index_view(T)))
    except Mismatch as mm:
        out.append(("populate", mm.symptom, feats, mm.exp, mm.obs))
    except Exception as ex:
        out.append(("populate", "exception:" + type(ex).__name__, feats | {"site:" + core.exc_site(ex)},
                    None, core.tb_tail(ex)))
    cur = core.CUR
    if offered and (ctx["wrote"] or ctx["touched_existing"]):
        cur.nt("populate")
    cur.path("offered=%d" % min(len(offered), 3))
    if ctx["wrote"]:
        cur.path("body-wrote")
    if ctx["touched_existing"]:
        cur.path("offered-coordinate-existed-in-z")
    return out


def _mk1(cells, tag, default, shape=None, active=None):
    cs = [i for i, x in enumerate(cells) if x != '-']
    ps = [default if cells[i] == '0' else tag * 10 + i + 1 for i in cs]
    kw = {}
    if shape is not None:
        kw["shape"] = shape
    if active is not None:
        kw["active_range"] = active
    return Fiber(cs, ps, default=default, **kw)


# ---- case functions ----------------------------------------------------------

def case_d1(case):
    zc, ac, body, owned, default = case
    out = check_populate(zc, ac, 1, body, owned, default)
    if all(x == "l" for x in body):
        out += two_passes(zc, ac, owned, default)
    return out


def two_passes(zc, ac, owned, default):
    """One populate object traversed twice by a body that writes nothing (an inspection pass before the real one):
    both passes offer a's coordinates and leave z as it was."""
    out = []
    feats = {"depth:1", "owned" if owned else "unowned", "same_populate_object_iterated_twice"}
    try:
        z = _mk1(zc, 1, default)
        keep = Tensor.fromFiber(["M"], z, shape=[len(zc)], default=default) if owned else None
        z = keep.getRoot() if owned else z
        a = _mk1(ac, 2, 0)
        exp = [o[0] for o in _offered(a, 1, None)]
        # reference: one pass on fresh objects (it drops explicit defaults of z at offered coordinates: C05's rule)
        z1 = _mk1(zc, 1, default)
        keep1 = Tensor.fromFiber(["M"], z1, shape=[len(zc)], default=default) if owned else None
        z1 = keep1.getRoot() if owned else z1
        for _ in z1 << _mk1(ac, 2, 0):
            pass
        p = z << a
        got = [[c for c, _ in p], [c for c, _ in p]]
        if got[0] == exp and got[1] != exp:
            out.append(("populate", "second-pass-offers-other-coordinates", feats, exp, got[1]))
        if rawtree(z) != rawtree(z1):
            out.append(("populate", "two-passes-leave-another-tree-than-one", feats, rawtree(z1), rawtree(z)))
    except Exception as ex:
        out.append(("populate", "exception:" + type(ex).__name__, feats | {"site:" + core.exc_site(ex)}, None,
                    core.tb_tail(ex)))
    return out



def case_grow(case):
    """observe - grow - observe on the SOURCE: a (no declared shape, compressed or uncompressed) drives a populate,
    is then extended through its public interface (append beyond the end / insertion by reference), and drives a
    second populate into a fresh destination: each pass offers what a presents at that time."""
    ac, fmt, grow = case
    feats = {"depth:1", "source_used_twice_and_grown_between", "fmt:" + fmt, "grow:" + grow[0]}
    out = []
    try:
        a = _mk1(ac, 2, 0)
        a.getRankAttrs().setFormat(fmt)
        model = {c: Payload.get(p) for c, p in zip(a.coords, a.payloads)}

        def expected():
            if fmt == "U":
                top = max(model) + 1 if model else 0
                return [(c, model.get(c, 0)) for c in range(top)]
            return [(c, v) for c, v in sorted(model.items()) if v != 0]
        for rnd in (1, 2):
            z = Fiber([], [])
            exp = expected()
            got = []
            for c, (zr, av) in z << a:
                got.append((c, Payload.get(av)))
                zr <<= Payload.get(av) + 100
            if got != exp:
                out.append(("populate", "offered", feats | {"pass:%d" % rnd}, exp, got))
                break
            zexp = {c: v + 100 for c, v in exp}
            zgot = {c: Payload.get(p) for c, p in zip(z.coords, z.payloads)}
            if zgot != zexp:
                out.append(("populate", "destination-content", feats | {"pass:%d" % rnd}, zexp, zgot))
                break
            if rnd == 1:
                if grow[0] == "append":
                    a.append(grow[1], grow[2])
                else:
                    r = a.getPayloadRef(grow[1])
                    r <<= grow[2]
                model[grow[1]] = grow[2]
        core.CUR.nt("grow")
    except Exception as ex:
        out.append(("populate", "exception:" + type(ex).__name__, feats | {"site:" + core.exc_site(ex)}, None,
                    core.tb_tail(ex)))
    return out


def shard_grow(acc, shard, nshards, params):
    n, = params
    u = f1(n)

    def gen():
        for ac in u:
            top = max([i for i, x in enumerate(ac) if x != '-'] + [-1])
            for fmt in ("C", "U"):
                for c in range(top + 1, n + 3):
                    for v in (0, 9):
                        yield (ac, fmt, ("append", c, v))
                for c in range(0, n + 3):
                    yield (ac, fmt, ("ref", c, 9))
    core.drive(acc, "grow", case_grow, gen(), shard, nshards, family="source-grown-between-two-populates[N=%d]" % n)


def case_d1u(case):
    zc, ac, body, arange = case
    return check_populate(zc, ac, 1, body, False, 0, "U", arange, n=len(zc))


def case_deep(case):
    zspec, aspec, d, body, owned = case[:5]
    # optional 6th element: the format the destination's non-leaf ranks are declared with (what a populate offers and
    # what it leaves behind is decided by the SOURCE's format; the destination's is bookkeeping for the metrics)
    return check_populate(zspec, aspec, d, body, owned, zupper=case[5] if len(case) > 5 else "C")


def shard_d1(acc, shard, nshards, params):
    n, owned, default, acts = params
    u = f1(n)

    def gen():
        for ac in u:
            bs = bodies(ac, 1, acts)
            for zc in u:
                for b in bs:
                    yield (zc, ac, b, owned, default)
    core.drive(acc, "d1", case_d1, gen(), shard, nshards,
               family="depth1[N=%d,%s,default=%s,acts=%s]" % (n, "owned" if owned else "unowned", default, acts))


def shard_d1u(acc, shard, nshards, params):
    n, acts = params
    u = f1(n)
    ars = [None] + [(s, e) for s in range(n) for e in range(s + 1, n + 1)] + [(-2, e) for e in (0, 1)] + [(-1, n)]

    def gen():
        for ar in ars:
            k = (ar[1] - ar[0]) if ar else n
            bs = [tuple(b) for b in itertools.product(acts, repeat=k)]
            for ac in u:
                for zc in u:
                    for b in bs:
                        yield (zc, ac, b, ar)
    core.drive(acc, "d1u", case_d1u, gen(), shard, nshards, family="depth1-U-source[N=%d,acts=%s]" % (n, acts))


def shard_deep(acc, shard, nshards, params):
    d, acts, zmax, amax, deadline = params
    if d == 2:
        uz = ua = t2(2, 2)
    else:
        uz = [s for s in t3(2, 2, 2) if _w(s) <= zmax]
        ua = [s for s in t3(2, 2, 2, "-v") if _w(s) <= amax]

    def gen():
        for owned in ((True, False) if d == 2 else (True,)):
            for aspec in ua:
                bs = bodies(aspec, d, acts)
                for zspec in uz:
                    if not owned and all(x is None for x in zspec):
                        continue     # see ASSUMPTIONS: depth-ambiguous unowned destination
                    for b in bs:
                        yield (zspec, aspec, d, b, owned)
                        if owned and d == 2:
                            yield (zspec, aspec, d, b, owned, "U")
    core.drive(acc, "deep", case_deep, gen(), shard, nshards,
               family="depth%d[acts=%s]" % (d, acts), deadline=deadline)


def _w(spec):
    n = 0
    for a in spec:
        if a is None:
            continue
        n += 1
        for b in a:
            if b is None:
                continue
            n += sum(1 for x in b if x != '-')
    return n


def case_d2u(case):
    """Depth-2 accumulate kernel whose source's upper rank is declared uncompressed:
    every coordinate of the source's shape is offered (absent ones with an empty
    stand-in); z gains the source's content, the source tensor - tree AND rank
    lists - is left exactly as it was."""
    zspec, aspec = case
    out = []
    feats = {"depth:2", "source_upper_rank_uncompressed"} | {"a:" + f for f in tree_features(aspec, 2)}
    try:
        Z = Tensor.fromFiber(["M", "N"], mktree(zspec, 2, tag=1), shape=[2, 2])
        A = Tensor.fromFiber(["M", "N"], mktree(aspec, 2, tag=2), shape=[2, 2])
        A.setFormat("M", "U")
        before = (rawtensor(A), rank_index_view(A))
        zc = content(Z)
        ac = content(A)
        offered = []
        for m, (z_n, a_n) in Z.getRoot() << A.getRoot():
            offered.append(m)
            for n, (zr, av) in z_n << a_n:
                zr += av
        if offered != [0, 1]:
            out.append(("populate", "yield-sequence", feats, [0, 1], offered))
        exp = dict(zc)
        for p, v in ac.items():
            exp[p] = exp.get(p, 0) + v
        if content(Z) != exp:
            out.append(("populate", "content", feats, exp, content(Z)))
        after = (rawtensor(A), rank_index_view(A))
        if after != before:
            which = "tree" if after[0] != before[0] else "rank-lists"
            out.append(("populate", "source-modified", feats | {"modified:" + which}, before, after))
        w = wf(Z.getRoot())
        m_ = mirror(Z)
        if w or m_:
            out.append(("populate", "destination-ill-formed-after-loop", feats, None, [w, m_]))
        if ac:
            core.CUR.nt("populate")
    except Exception as ex:
        out.append(("populate", "exception:" + type(ex).__name__, feats | {"site:" + core.exc_site(ex)},
                    None, core.tb_tail(ex)))
    return out


def shard_d2u(acc, shard, nshards, params):
    u = t2(2, 2)
    core.drive(acc, "d2u", case_d2u, ((z, a) for a in u for z in u), shard, nshards,
               family="depth2-U-upper-source[T2(2,2)^2]")


def case_d2own(case):
    """Depth-2 assign kernel whose source belongs to a tensor with leaf default 7
    while its fibers were built with default 0 (stored zeros are values there):
    what the source presents is decided by the owning rank's default."""
    aspec, zdefault = case
    out = []
    feats = {"depth:2", "source_rank_default_differs_from_fiber_default"} | {"a:" + f for f in tree_features(aspec, 2)}
    try:
        A = Tensor.fromFiber(["M", "N"], mktree(aspec, 2, tag=2, default=0), shape=[2, 2], default=7)
        Z = Tensor(rank_ids=["M", "N"], shape=[2, 2], default=zdefault)
        before = (rawtensor(A), rank_index_view(A))
        rows, got = [], {}
        for m, (z_n, a_n) in Z.getRoot() << A.getRoot():
            rows.append(m)
            for n, (zr, av) in z_n << a_n:
                zr <<= av
                got[(m, n)] = unbox(av)
        # the values the oracle expects are read back from the source's stored leaves
        stored = {}
        ra = A.getRoot()
        for m, f in zip(ra.coords, ra.payloads):
            for n, pl in zip(f.coords, f.payloads):
                if unbox(pl) != 7:
                    stored[(m, n)] = unbox(pl)
        exp_rows = sorted({m for m, _ in stored})
        if rows != exp_rows:
            out.append(("populate", "yield-sequence", feats, exp_rows, rows))
        elif got != stored:
            out.append(("populate", "offered-leaves", feats, stored, got))
        zexp = {p: v for p, v in stored.items() if v != zdefault}
        if content(Z, zdefault) != zexp:
            out.append(("populate", "content", feats, zexp, content(Z, zdefault)))
        after = (rawtensor(A), rank_index_view(A))
        if after != before:
            out.append(("populate", "source-modified", feats, before, after))
        w = wf(Z.getRoot())
        m_ = mirror(Z)
        if w or m_:
            out.append(("populate", "destination-ill-formed-after-loop", feats, None, [w, m_]))
        if any(v == 0 for v in stored.values()):
            core.CUR.nt("populate")
            core.CUR.path("d2own:stored-zero-is-a-value")
    except Exception as ex:
        out.append(("populate", "exception:" + type(ex).__name__, feats | {"site:" + core.exc_site(ex)},
                    None, core.tb_tail(ex)))
    return out


def shard_d2own(acc, shard, nshards, params):
    core.drive(acc, "d2own", case_d2own, ((a, zd) for a in t2(2, 2) for zd in (7, 0)), shard, nshards,
               family="depth2-source-owned-default7[T2(2,2)]")


def case_d2ul(case):
    """Depth-2 accumulate kernel whose source's LOWER rank is declared uncompressed and whose shape is only
    estimated (tensor built without shape=): every row offers the coordinates 0..E-1, E = the rank's estimate =
    the largest stored coordinate of any row + 1; z gains the source's content."""
    zspec, aspec = case
    out = []
    feats = {"depth:2", "source_lower_rank_uncompressed", "source_shape_estimated"} | \
            {"a:" + f for f in tree_features(aspec, 2)}
    try:
        Z = Tensor.fromFiber(["M", "N"], mktree(zspec, 2, tag=1), shape=[2, 2])
        A = Tensor.fromFiber(["M", "N"], mktree(aspec, 2, tag=2))
        A.setFormat("N", "U")
        before = (rawtensor(A), rank_index_view(A))
        zc, ac = content(Z), content(A)
        stored = [n for row in aspec if row is not None for n, x in enumerate(row) if x != '-']
        E = max(stored) + 1 if stored else 0
        rows = [m for m, row in enumerate(aspec) if row is not None and any(x not in '-0' for x in row)]
        got_rows, bad = [], None
        for m, (z_n, a_n) in Z.getRoot() << A.getRoot():
            got_rows.append(m)
            offered = []
            for n, (zr, av) in z_n << a_n:
                offered.append(n)
                zr += av
            if offered != list(range(E)) and bad is None:
                bad = (m, offered)
        if got_rows != rows:
            out.append(("populate", "yield-sequence", feats, rows, got_rows))
        if bad:
            out.append(("populate", "row-yield-sequence", feats, list(range(E)), list(bad)))
        exp = dict(zc)
        for p, v in ac.items():
            exp[p] = exp.get(p, 0) + v
        if content(Z) != exp:
            out.append(("populate", "content", feats, exp, content(Z)))
        if (rawtensor(A), rank_index_view(A)) != before:
            out.append(("populate", "source-modified", feats, None, None))
        if ac:
            core.CUR.nt("populate")
    except Exception as ex:
        out.append(("populate", "exception:" + type(ex).__name__, feats | {"site:" + core.exc_site(ex)},
                    None, core.tb_tail(ex)))
    return out


def shard_d2ul(acc, shard, nshards, params):
    u = t2(2, 2)
    zs = [u[0], u[len(u) // 2], u[-1]]
    core.drive(acc, "d2ul", case_d2ul, ((z, a) for a in u for z in zs), shard, nshards,
               family="depth2-U-lower-source-estimated-shape[T2(2,2) x 3 destinations]")


CASES = {"grow": case_grow, "d2ul": case_d2ul, "d2own": case_d2own, "d1": case_d1, "d1u": case_d1u, "deep": case_deep, "d2u": case_d2u}


def run(ctx):
    import time
    q = ctx.quick
    ctx.bounds = {
        "depth1": "z, a in F1(N,{-,0,v}) x all bodies over {l,s,z,p}: N=%d unowned; N=3 owned by a tensor; N=3 leaf default 7; float leaf default 0.5 (N=3 owned, N=2 unowned)" % (4 if q else 5),
        "depth2-U-lower-estimated": "source tensor built without shape=, lower rank uncompressed: every row offers 0..E-1 (E = the "
                                    "rank's estimated shape), accumulate kernel, T2(2,2) sources x 3 destinations",
        "depth2-owner-default": "source = tensor with leaf default 7 over fibers built with default 0 (stored zeros are values), T2(2,2), "
                                "assign kernel into an empty tensor with default 7 / 0: offered rows and leaves, content, source untouched",
        "depth1-U-source": "source rank uncompressed with every active range, N=3, bodies over {l,p,z}",
        "depth2": "z, a in T2(2,2,{-,0,v}) owned and unowned x all descend/skip x leaf bodies over %s" % ("{l,p}" if q else "{l,p,z}"),
        "depth3": "T3(2,2,2) destinations with <=%d fibers+leaves, sources with <=%d, leaf bodies {l,p}" % ((3, 3) if q else (4, 4)),
    }
    ctx.shards(shard_d1, (4 if q else 5, False, 0, LEAF_ACTS))
    ctx.shards(shard_d1, (3, True, 0, LEAF_ACTS))
    ctx.shards(shard_d1, (3, False, 7, LEAF_ACTS))
    ctx.shards(shard_d1, (3, True, 7, "lzp"))
    ctx.shards(shard_d1, (3, True, 0.5, "lzp"))
    ctx.shards(shard_d1, (2, False, 0.5, "lzp"))
    ctx.shards(shard_d2own, None)
    ctx.shards(shard_d2ul, None)
    ctx.shards(shard_d1u, (3, "lpz"))
    ctx.shards(shard_grow, (3 if ctx.quick else 4,))
    ctx.bounds["source-grown"] = ("every 1-D source of F1(3) (thorough 4) without declared shape, compressed and uncompressed, "
                                  "drives a populate, grows by one append / one insertion by reference, drives a second one")
    ctx.shards(shard_d2u, None)
    ctx.bounds["depth2-U-upper-source"] = "z, a in T2(2,2), a's upper rank declared uncompressed, accumulate body; source tensor snapshot incl. rank lists"
    ctx.shards(shard_deep, (2, "lp" if q else "lpz", None, None, time.time() + (60 if q else 600)))
    ctx.shards(shard_deep, (3, "lp", 3 if q else 4, 3 if q else 4, time.time() + (60 if q else 600)))

"""C09 - rank transforms move every point to its image and nothing else.

E2: every tree of the stated small universes (explicit defaults, empty
sub-fibers, the empty tensor) is built as a Tensor (declared / estimated shape,
and for the empty tree also through the Tensor(rank_ids=...) constructor) and as
a raw fiber tree, every transform / parameter choice is run on it through the
real library, and content(result) (read from Fiber.coords / Fiber.payloads) is
compared with the image of the spec's content under the stated coordinate map,
computed in mc/ref_c09.py from the spec alone."""
import itertools
import time

from fibertree import Fiber, Tensor, Payload

from mc import core
from mc.core import drive
from mc.obs import content, wf, mirror, rawtree
from mc.univ import t2, t3, mktensor, tree_content, tree_features, RANK_IDS
from mc import ref_c09 as R

LEVEL = "exploration"
RULE = ("every tree spec of the universe (x leaf default in the non-zero-default family) x every form (tensor with declared shape, tensor with estimated shape, "
        "raw fiber tree; the empty tree also via Tensor(rank_ids=...)) x every transform group is one case; inside a "
        "case every parameter choice of the group (permutation, depth, levels, style, merge function, step, "
        "coordinate function) is executed.  Specs are distinct by construction.  A case is non-trivial when the "
        "tree holds at least two non-default points (so that a point can be misplaced); merge cases additionally "
        "count collisions, split cases partitions, in the path counters")
ASSUMPTIONS = [
    "coordinates 0..N-1 per rank (N<=3), depth 2-4, leaf default 0, position-tagged positive int leaf values "
    "(the non-zero-default family below: leaf default 7 or -1)",
    "non-zero-default family (NZ universes): leaf cells absent / stored 0 / explicit default / position-tagged value "
    "(never 0, 7 or -1); a point is a stored leaf whose value differs from the leaf default, so a stored 0 is a point and "
    "must be moved like any other; every leaf fiber (also an empty one) is built with the leaf default; the raw-fiber "
    "form is not generated for trees holding an empty fiber above the leaf rank (an unowned empty interior fiber has no "
    "defined leaf default - documented guess 0); Tensor results must report the original leaf default; only the groups "
    "swizzle/swap, flatten/unflatten and merge are driven",
    "merge in the non-zero-default family: only points are reduced (a stored payload equal to the leaf default is not a "
    "point); sums / maxima of the values used never equal 7 or -1",
    "three sub-families of the non-zero-default / empty-interior-fiber family deviated on the pinned tree (flatten/merge "
    "with levels >= 3 over a stored empty interior fiber; mergeRanks with colliding sub-fibers when "
    "merge_fn(value, default) != value; mergeRanks with colliding sub-fibers and levels >= 2 under a non-zero default): "
    "repaired by fixes 35b1f3d and 9085311, they run in both tiers (module constant PENDING is empty)",
    "style 'linear' is only generated where the flattened lower ranks have an authoritative shape (declared tensor "
    "shape / Fiber(shape=)), which Fiber._flattenCoords documents as required",
    "flattenRanks with 'absolute'/'relative' is only judged when no two *stored* elements of the lowest flattened "
    "rank receive the same coordinate in the same fiber (flattening never merges payloads, leaves or sub-fibers: the "
    "library raises ValueError by design); collisions are exercised through mergeRanks",
    "merge functions sum (also as the default merge_fn=None) and max over positive values with leaf default 0, so "
    "explicit defaults do not change a reduction",
    "Fiber.swapRanks / Fiber.unflattenRanks (and their *Below forms) on a raw fiber that is empty in the library's "
    "sense (no non-default leaf below it) are not generated (asserted precondition, pinned by "
    "test_fiber_mutator.py::test_swapRanks_empty); Tensor.swapRanks / Tensor.unflattenRanks are generated for every tree",
    "updateCoords functions are injective on 0..N-1 (monotone shift and order-reversing); updatePayloads functions "
    "map the default to the default and return boxed values",
    "unflattenRanks is applied only to results of flattenRanks with the invertible styles tuple and pair",
    "'restores the original' is judged on content (point -> non-default value), not Tensor.__eq__",
    "second-generation programs (mc/compose.py): as a second step flattenRanks with absolute / linear / relative only on "
    "ranks holding int coordinates, linear only with a declared shape, relative only directly after the relative-coordinate "
    "split of the same rank (what the style is documented for); a program whose flatten would have to merge two stored "
    "elements is skipped (ValueError by design); swizzleRanks is not applied to tensors holding a list-named (flattened) "
    "rank (rank_ids is documented as a list of strings); a split addressed with rankid= and a depth= naming another rank "
    "splits the rank named by rankid (documented: rankid overrides depth)",
    "'and nothing else' for a chain of transforms: after every step the step's operand and every earlier tensor of the "
    "chain equal the snapshot taken when they were made (rank ids, authoritative shape, content, stored coords/payloads)",
]

GROUPS = ("swizzle", "flatten", "merge", "split", "update")

# Sub-families of the non-zero-default / empty-interior-fiber family that deviate on the unchanged tree and are kept out
# of run() until the lead decides (they run with `./check C09 --only pending`).  Removing a name from this set moves
# its sub-cases into run() (both tiers):
#  placeholder-default   flattenRanks / mergeRanks with levels >= 3 over a tree holding a stored empty fiber between the
#                        root and the leaf rank: Fiber._mergeRanksHelper takes default and shape of the merged rank from
#                        its LAST child, and a child merged from an empty fiber carries the placeholders Payload(0) /
#                        shape None / an active range of the wrong nesting; the next level up iterates the fiber with
#                        default 0 and drops stored leaves equal to 0 (leaf default != 0), asserts in _flattenCoords
#                        (style linear, any default), or fails comparing an int with a tuple range start (style pair,
#                        empty fibers at two different ranks, any default)
#  phantom-default       mergeRanks where two sub-fibers (not leaves) collide: Fiber._mergeToFibertree feeds the union's
#                        padding (the default of an operand that is absent at a coordinate) to merge_fn; visible when
#                        merge_fn(value, default) != value (sum with default 7 / -1, max with default 7 over a stored 0)
#  merged-fiber-default  same collision, levels >= 2: the fiber made by Fiber._mergeToFibertree has no default (0), the
#                        next level up drops its leaves equal to 0
PENDING = set()      # all three sub-families repaired (fixes 35b1f3d, 9085311): part of both tiers


# ---------------------------------------------------------------------------
# construction

def _leafval(point):
    v = 1
    for c in point:
        v = v * 10 + c + 1
    return v


def _cellval(point, cell):
    return 0 if cell == '0' else _leafval(point)


def mkshaped(spec, dims, prefix=()):
    """Raw fiber tree whose fibers carry their shape (same values as univ.mktree)."""
    n = dims[0]
    cs, ps = [], []
    if len(dims) == 1:
        for i, x in enumerate(spec):
            if x == '-':
                continue
            cs.append(i)
            ps.append(_cellval(prefix + (i,), x))
        return Fiber(cs, ps, shape=n)
    for i, x in enumerate(spec):
        if x is None:
            continue
        cs.append(i)
        ps.append(mkshaped(x, dims[1:], prefix + (i,)))
    return Fiber(cs, ps, shape=n)


def mknz(spec, dims, default, shaped, prefix=()):
    """Raw fiber tree over the cells '-', '0' (explicit default), 'z' (stored 0), 'v'; every leaf fiber (also an
    empty one) is made with the leaf default."""
    n = dims[0]
    kw = {"shape": n} if shaped else {}
    if len(dims) == 1:
        cs = [i for i, x in enumerate(spec) if x != '-']
        return Fiber(cs, [R.cellval(prefix + (i,), spec[i], default) for i in cs], default=default, **kw)
    cs = [i for i, x in enumerate(spec) if x is not None]
    return Fiber(cs, [mknz(spec[i], dims[1:], default, shaped, prefix + (i,)) for i in cs], **kw)


def build(spec, dims, form, default=0):
    depth = len(dims)
    if default != 0:
        ids = RANK_IDS[:depth]
        if form == "ts":
            return Tensor.fromFiber(ids, mknz(spec, dims, default, False), shape=list(dims), default=default)
        if form == "te":
            return Tensor.fromFiber(ids, mknz(spec, dims, default, False), default=default)
        if form == "f":
            return mknz(spec, dims, default, True)
        raise ValueError(form)
    if form == "ts":
        return mktensor(spec, depth, shape=list(dims))
    if form == "te":
        return mktensor(spec, depth)
    if form == "tn":
        return Tensor(rank_ids=RANK_IDS[:depth], shape=list(dims))
    if form == "tm":
        return Tensor(rank_ids=RANK_IDS[:depth])
    if form == "f":
        return mkshaped(spec, dims)
    raise ValueError(form)


def _root(x):
    return x.getRoot() if isinstance(x, Tensor) else x


def _has_shape(form):
    return form in ("ts", "tn", "f")


# ---------------------------------------------------------------------------
# the checker used by every group

class Chk:
    def __init__(self, spec, dims, form, default=0, pending=False):
        self.spec, self.dims, self.form = spec, tuple(dims), form
        self.default, self.pending = default, pending
        self.depth = len(dims)
        self.C = self.tc(spec, self.depth)
        self.stored = R.stored_points(spec, self.depth)
        self.base = tree_features(spec, self.depth) | {"form:" + form}
        if default != 0:
            self.base.add("default:%d" % default)
            if any(v == 0 for v in self.C.values()):
                self.base.add("stored_zero_value")
        self.base.add("shape:declared" if _has_shape(form) else "shape:estimated")
        if not self.stored:
            self.base.add("no_stored_leaf")
        if not self.C:
            self.base.add("content_empty")
        self.out = []
        self.desc = ""
        self.par = ""      # exact parameters of the call being judged (recorded with a violation)

    def tc(self, spec, depth):
        """Reference content of a (sub-)spec; only its emptiness is used for sub-specs."""
        if self.default == 0:
            return tree_content(spec, depth)
        return R.spec_content(spec, depth, self.default)

    def fresh(self):
        return build(self.spec, self.dims, self.form, self.default)

    def empties_at(self, d):
        """Trigger feature: some, but not all, fibers at depth d hold no
        non-default leaf (the library's isEmpty())."""
        fs = R.fibers_at(self.spec, self.depth, d)
        e = [not self.tc(s, self.depth - d) for _, s in fs]
        if d > 0 and any(e) and not all(e):
            return {"some_fiber_empty_at_depth"}
        return set()

    def placeholder(self, l, style=None):
        """Sub-family "placeholder-default": flatten / merge of >= 3 levels over a tree with a stored empty fiber
        below the root and above the leaf rank, when the leaf default is not 0 or the style is linear or pair."""
        if l < 3 or not R.has_empty_interior(self.spec, self.depth):
            return None
        return "placeholder-default" if self.default != 0 or style in ("linear", "pair") else None

    def gate(self, sub, label):
        """Run a sub-case?  Sub-cases of a sub-family named in PENDING belong to the pending plan only
        (`./check C09 --only pending`), all others to run() only."""
        cond = sub in PENDING
        if cond != self.pending:
            if cond:
                core.CUR.path("left-to-pending:%s:%s" % (label, sub))
            return False
        return True

    def V(self, fam, sym, feats, exp, obs):
        self.out.append((fam, sym, self.base | set(feats), exp, {"call": self.desc, "observed": obs}))

    def run(self, fam, feats, fn, exp, ndepth=None, model=None, what="content"):
        """fn() -> result object (Tensor or Fiber); compare its content."""
        self.desc = "%s %s%s" % (fam, self.par, " (then the inverse)" if "inverse" in feats else "")
        try:
            res = fn()
        except (Exception, SystemExit) as ex:
            self.V(fam, "exception:" + type(ex).__name__, set(feats) | {"site:" + core.exc_site(ex)},
                   _show(exp), core.tb_tail(ex))
            return None
        root = _root(res)
        if not isinstance(root, Fiber):
            self.V(fam, "result-type", feats, "Fiber", repr(root)[:80])
            return None
        w = wf(root, ndepth)
        if w:
            self.V(fam, "wf", set(feats) | {"wf:" + w.split("@")[0]}, None, [w, rawtree(root)])
            return res
        if isinstance(res, Tensor):
            m = mirror(res)
            if m:
                self.V(fam, "mirror", set(feats) | {"mirror:" + m}, None, m)
            # a well-formed tensor stores no coordinate outside the shape it reports (integer ranks only)
            try:
                shp = res.getShape()
            except Exception:
                shp = None
            if isinstance(shp, list) and ("swap" in fam or "swizzle" in fam):      # permutations: the shape's meaning is unambiguous
                bad = []

                def _inside(f, d):
                    for c_, p_ in zip(f.coords, f.payloads):
                        if d < len(shp) and isinstance(shp[d], int) and isinstance(c_, int) and shp[d] > 0 \
                                and not 0 <= c_ < shp[d]:
                            bad.append((d, c_, shp[d]))
                        if isinstance(p_, Fiber):
                            _inside(p_, d + 1)
                _inside(root, 0)
                if bad:
                    self.V(fam, "coordinate-outside-reported-shape", feats, shp, bad[:3])
            if self.default != 0:
                # a point is a coordinate whose value differs from the leaf default: the result must keep it
                dv = _unbox(res.getDefault())
                if dv != self.default:
                    self.V(fam, "leaf-default", feats, self.default, repr(dv))
        got = content(root, self.default)
        if got != exp:
            f2 = set(feats)
            if model is not None:
                name, pred = model
                if pred is not None and got == pred:
                    f2.add("dm:" + name)
            self.V(fam, what, f2, _show(exp), _show(got))
        core.CUR.outcome((fam, tuple(sorted(got.items(), key=repr))))
        return res


def _unbox(p):
    for _ in range(64):          # bounded: a box may (wrongly) contain itself
        if not isinstance(p, Payload):
            break
        p = p.value
    else:
        return "CYCLIC-OR-DEEPLY-NESTED-BOX"
    return p


def _show(d):
    if isinstance(d, dict):
        return sorted(([list(k), v] for k, v in d.items()), key=repr)
    return d


def _ids(depth):
    return RANK_IDS[:depth]


def _pf(d=None, l=None):
    """Parameter features, kept coarse so that one root cause does not fan out
    into hundreds of signatures (the exact parameters are in the replayed case's
    expected / observed): depth 0 versus deeper, one level versus several."""
    out = set()
    if d is not None:
        out.add("depth=0" if d == 0 else "depth>0")
    if l is not None:
        out.add("levels=1" if l == 1 else "levels>1")
    return out


# ---------------------------------------------------------------------------
# group: swizzle / swap

def g_swizzle(k):
    D, C = k.depth, k.C
    cur = core.CUR
    if k.pending:
        return
    if k.form != "f":
        ids = _ids(D)
        for perm in itertools.permutations(range(D)):
            new_ids = [ids[i] for i in perm]
            k.par = "rank_ids=%s" % (new_ids,)
            feats = set()
            if perm == tuple(range(D)):
                feats.add("identity")
                cur.path("swizzle:identity")
            else:
                feats.add("proper_permutation")
                cur.path("swizzle:proper")
            hold = {}

            def fwd():
                hold["t"] = k.fresh().swizzleRanks(list(new_ids))
                return hold["t"]
            r = k.run("T.swizzleRanks", feats, fwd, R.image_perm(C, perm), D)
            if r is not None:
                k.run("T.swizzleRanks", feats | {"inverse"}, lambda: r.swizzleRanks(list(ids)), C, D,
                      what="roundtrip-content")
        for d in range(D - 1):
            feats = _pf(d) | k.empties_at(d)
            k.par = "depth=%d" % d
            r = k.run("T.swapRanks", feats, lambda: k.fresh().swapRanks(depth=d), R.image_swap(C, d), D)
            if r is not None:
                k.run("T.swapRanks", feats | {"inverse"}, lambda: r.swapRanks(depth=d), C, D,
                      what="roundtrip-content")
    else:
        # raw fibers: Fiber.swapRanks() at the top (needs a non-default leaf
        # below every fiber it is applied to: the library's isEmpty()), swapRanksBelow deeper
        for d in range(D - 1):
            tops = R.fibers_at(k.spec, D, d)
            if not tops or any(not k.tc(s, D - d) for _, s in tops):
                cur.path("F.swap:skipped-precondition")
                continue
            feats = _pf(d)
            k.par = "at depth %d" % d
            if d == 0:
                r = k.run("F.swapRanks", feats, lambda: k.fresh().swapRanks(), R.image_swap(C, 0), D)
                if r is not None:
                    k.run("F.swapRanks", feats | {"inverse"}, lambda: r.swapRanks(), C, D, what="roundtrip-content")
            else:
                def below():
                    f = k.fresh()
                    f.swapRanksBelow(depth=d - 1)
                    return f
                r = k.run("F.swapRanksBelow", feats, below, R.image_swap(C, d), D)
                if r is not None:
                    def again():
                        r.swapRanksBelow(depth=d - 1)
                        return r
                    k.run("F.swapRanksBelow", feats | {"inverse"}, again, C, D, what="roundtrip-content")


# ---------------------------------------------------------------------------
# group: flatten / unflatten

def g_flatten(k):
    D, C, dims = k.depth, k.C, k.dims
    cur = core.CUR
    for d, l in R.legal_flatten(D):
        for style in R.STYLES:
            if style == "linear" and not _has_shape(k.form):
                continue
            feats = _pf(d, l) | {"style:" + style}
            k.par = "depth=%d levels=%d style=%s" % (d, l, style)
            pend = k.placeholder(l, style)
            if not k.gate(pend, "flatten"):
                continue
            if pend:
                feats.add("sub:" + pend)
            if style in ("absolute", "relative"):
                if R.rank_collides(R.stored_prefixes(k.spec, D, d + l + 1), d, l, style, dims):
                    cur.path("flatten:%s:collision-skipped" % style)
                    continue
                cur.path("flatten:%s:injective" % style)
            exp = R.image_flatten(C, d, l, style, dims)
            nd = D - l
            if k.form != "f":
                r = k.run("T.flattenRanks", feats,
                          lambda: k.fresh().flattenRanks(depth=d, levels=l, coord_style=style), exp, nd)
                if r is not None and style in R.INVERTIBLE:
                    k.run("T.unflattenRanks", feats | k.empties_at(d), lambda: r.unflattenRanks(depth=d, levels=l),
                          C, D, what="roundtrip-content")
            else:
                r = k.run("F.flattenRanks", feats,
                          lambda: k.fresh().flattenRanks(depth=d, levels=l, style=style), exp, nd)
                if d > 0:
                    def below():
                        f = k.fresh()
                        f.flattenRanksBelow(depth=d - 1, levels=l, style=style)
                        return f
                    k.run("F.flattenRanksBelow", feats, below, exp, nd)
                if r is not None and style in R.INVERTIBLE:
                    # Fiber.unflattenRanks asserts a coordinate in every fiber
                    # it is applied to (flattening drops default-valued leaves)
                    tops = R.fibers_at(k.spec, D, d)
                    if tops and all(k.tc(s, D - d) for _, s in tops):
                        if d == 0:
                            k.run("F.unflattenRanks", feats, lambda: r.unflattenRanks(levels=l), C, D,
                                  what="roundtrip-content")
                        else:
                            def unbelow():
                                r.unflattenRanksBelow(depth=d - 1, levels=l)
                                return r
                            k.run("F.unflattenRanksBelow", feats, unbelow, C, D, what="roundtrip-content")
                    else:
                        cur.path("F.unflatten:skipped-precondition")


# ---------------------------------------------------------------------------
# group: merge

def _fn_max(ps):
    return max(ps)


MERGE_FNS = (("sum", None, sum), ("max", _fn_max, max))     # merge_fn=None is the documented sum


def g_merge(k):
    D, C, dims = k.depth, k.C, k.dims
    cur = core.CUR
    for d, l in R.legal_flatten(D):
        for style in ("absolute", "relative"):
            coll = R.collides(list(C), d, l, style, dims)
            # two stored sub-fibers (not leaves) of the lowest merged rank land on one coordinate
            fibcoll = d + l + 1 < D and R.rank_collides(R.stored_prefixes(k.spec, D, d + l + 1), d, l, style, dims)
            if not k.pending:
                cur.path("merge:collision" if coll else "merge:no-collision")
            for name, fn, ref in MERGE_FNS:
                feats = _pf(d, l) | {"style:" + style, "fn:" + name}
                k.par = "depth=%d levels=%d style=%s merge_fn=%s" % (d, l, style, name if fn else None)
                # does reducing a value with the leaf default leave it unchanged?  (always for leaf default 0)
                dv = k.default
                neutral = ref([dv, dv]) == dv and all(ref([v, dv]) == v == ref([dv, v]) for v in set(C.values()))
                # sub-families kept out of run() (PENDING_PLAN), all with a leaf default != 0
                pend = k.placeholder(l)                 # levels >= 3 over a stored empty interior fiber
                if pend:
                    pass
                elif fibcoll and not neutral:
                    pend = "phantom-default"            # sub-fibers collide and fn(value, default) != value
                elif fibcoll and dv != 0 and l >= 2:
                    pend = "merged-fiber-default"       # sub-fibers collide below a further merged level
                if not k.gate(pend, "merge"):
                    continue
                if pend:
                    feats.add("sub:" + pend)
                if coll:
                    feats.add("collision")
                if fibcoll:
                    feats.add("sub-fiber-collision")
                exp = R.image_merge(C, d, l, style, dims, ref, k.default)
                if k.form != "f":
                    k.run("T.mergeRanks", feats,
                          lambda: k.fresh().mergeRanks(depth=d, levels=l, coord_style=style, merge_fn=fn),
                          exp, D - l)
                else:
                    k.run("F.mergeRanks", feats,
                          lambda: k.fresh().mergeRanks(depth=d, levels=l, style=style, merge_fn=fn), exp, D - l)


# ---------------------------------------------------------------------------
# group: split then flatten with absolute coordinates

def g_split(k):
    D, C, dims = k.depth, k.C, k.dims
    cur = core.CUR
    for d in range(D):
        for kind in ("splitUniform", "splitEqual"):
            for step in (1, 2):
                feats = _pf(d)
                k.par = "step=%d depth=%d, flattenRanks(depth=%d, levels=1, absolute)" % (step, d, d)
                if k.form != "f":
                    def tfn():
                        s = getattr(k.fresh(), kind)(step, depth=d)
                        return s.flattenRanks(depth=d, levels=1, coord_style="absolute")
                    k.run("T.%s+flatten" % kind, feats, tfn, C, D, what="roundtrip-content")
                else:
                    def ffn():
                        s = getattr(k.fresh(), kind)(step, depth=d)
                        return s.flattenRanks(depth=d, levels=1, style="absolute")
                    k.run("F.%s+flatten" % kind, feats, ffn, C, D, what="roundtrip-content")
                    if d > 0:
                        def bfn():
                            f = k.fresh()
                            getattr(f, kind + "Below")(step, depth=d - 1)
                            f.flattenRanksBelow(depth=d - 1, levels=1, style="absolute")
                            return f
                        k.run("F.%sBelow+flattenBelow" % kind, feats, bfn, C, D, what="roundtrip-content")
    if len(C) >= 2:
        cur.path("split:>=2-points")


# ---------------------------------------------------------------------------
# group: updateCoords / updatePayloads

def g_update(k):
    D, C, dims = k.depth, k.C, k.dims
    for d in range(D):
        n = dims[d]
        funcs = (("shift", lambda c, n=n: c + 1, n + 1), ("reverse", lambda c, n=n: n - 1 - c, None))
        for name, f, new_shape in funcs:
            feats = _pf(d) | {"func:" + name}
            k.par = "depth=%d func=%s" % (d, name)
            exp = R.image_coord(C, d, f)
            model = None
            if d > 0:
                model = ("only_first_subfiber_rewritten",
                         R.dm_update_first_subfiber_only(k.spec, D, C, d, f))
            kw = {} if new_shape is None else {"new_shape": new_shape}
            lam = lambda i, c, p, f=f: f(c)
            if k.form != "f":
                k.run("T.updateCoords", feats, lambda: k.fresh().updateCoords(lam, depth=d, **kw), exp, D,
                      model=model)
            else:
                def ufn():
                    x = k.fresh()
                    x.updateCoords(lam, depth=d, **kw)
                    return x
                k.run("F.updateCoords", feats, ufn, exp, D, model=model)
    # payloads: leaves scaled (default -> default), interior fibers replaced by themselves
    scale = lambda v: v * 10
    leaf = lambda i, c, p: Payload(p.value * 10)
    seen = []

    def ident(i, c, p):
        seen.append(c)
        return p
    for d in range(D):
        feats = _pf(d) | {"leaf" if d == D - 1 else "interior"}
        k.par = "depth=%d func=%s" % (d, "value*10" if d == D - 1 else "identity")
        if d == D - 1:
            exp = R.image_value(C, scale)
            model = ("payloads_written_at_occupancy_index",
                     R.dm_payloads_at_occupancy_index(k.spec, D, _cellval, scale))
            func = leaf
        else:
            exp, model, func = C, None, ident
        del seen[:]
        if k.form != "f":
            k.run("T.updatePayloads", feats, lambda: k.fresh().updatePayloads(func, depth=d), exp, D, model=model)
        else:
            def pfn():
                x = k.fresh()
                x.updatePayloads(func, depth=d)
                return x
            k.run("F.updatePayloads", feats, pfn, exp, D, model=model)
        if d < D - 1:
            # func must have been offered every stored element of every fiber at depth d
            want = [c for _, s in R.fibers_at(k.spec, D, d)
                    for c in R.stored_children(s, D - d, ())]
            if sorted(seen) != sorted(want):
                k.V(("T." if k.form != "f" else "F.") + "updatePayloads", "callback-coords", feats, want, list(seen))


GROUP_FN = {"swizzle": g_swizzle, "flatten": g_flatten, "merge": g_merge, "split": g_split, "update": g_update}
NZ_GROUPS = ("swizzle", "flatten", "merge")
NZ_CELLS = "-z0v"       # absent / stored 0 (a value: the default is not 0) / explicit default / position-tagged value


def case_tree(case):
    dims, spec, form, group = case
    k = Chk(spec, dims, form)
    GROUP_FN[group](k)
    if len(k.C) >= 2:
        core.CUR.nt(group)
    for f in sorted(tree_features(spec, len(dims))):
        core.CUR.path("tree:" + f)
    return k.out


def case_nz(case):
    """Non-zero leaf default: (dims, spec, form, group, default, sub); sub == "pending" runs only the sub-cases kept
    out of run() (Chk.gate), sub == "" all the others."""
    dims, spec, form, group, default, sub = case
    k = Chk(spec, dims, form, default=default, pending=(sub == "pending"))
    GROUP_FN[group](k)
    if len(k.C) >= 2:
        core.CUR.nt("nz:" + group)
    if any(v == 0 for v in k.C.values()):
        core.CUR.path("nz:tree:stored-zero-is-a-point")
    for f in sorted(tree_features(spec, len(dims))):
        core.CUR.path("nz:tree:" + f)
    return k.out


def shard_nz(acc, shard, nshards, params):
    name, forms, groups, defaults, sub, deadline = params
    dims, specs = _universe(name)

    def gen():
        for spec in specs:
            amb = R.has_empty_interior(spec, len(dims))
            for default in defaults:
                for form in forms:
                    if form == "f" and amb:
                        continue        # unowned empty interior fiber: its leaf default is not defined (ASSUMPTIONS)
                    for g in groups:
                        yield (dims, spec, form, g, default, sub)
    drive(acc, "nz", case_nz, gen(), shard, nshards,
          family="%s%s[%s; leaf default %s]" % ("pending:" if sub else "", name, "+".join(forms),
                                                "/".join(map(str, defaults))), deadline=deadline)


# ---------------------------------------------------------------------------
# second-generation transforms (lead): see mc/compose.py

def case_compose(case):
    from mc import compose
    return compose.case_compose(case, "C09")


def shard_compose(acc, shard, nshards, params):
    from mc import compose
    n0, maxpts, deadline = params[:3]
    dims = params[3] if len(params) > 3 else None
    label = "compose[ranks=%d,<=%d points]" % (n0, maxpts) if dims is None else \
        "compose[ranks=%d,extents=%s,permutations+flattens,<=%d points]" % (n0, "x".join(map(str, dims)), maxpts)
    core.drive(acc, "compose", case_compose, compose.cases(n0, maxpts, dims=dims), shard, nshards,
               family=label, deadline=deadline)


CASES = {"tree": case_tree, "compose": case_compose, "nz": case_nz}


# ---------------------------------------------------------------------------
# universes and shards

def _universe(name):
    if name == "T2(3,2)":
        return (3, 2), t2(3, 2)
    if name == "T2(3,3)":
        return (3, 3), t2(3, 3)
    if name == "T2(2,2)":
        return (2, 2), t2(2, 2)
    if name == "T3(2,2,2)":
        return (2, 2, 2), t3(2, 2, 2)
    if name == "T3(2,2,2;-v)":
        return (2, 2, 2), t3(2, 2, 2, "-v")
    if name == "T3(2,3,2;-0v;<=2)":
        def _w2(sp):
            return sum(1 for a in sp if a is not None for b in a if b is not None for x in b if x != '-')
        return (2, 3, 2), [sp for sp in t3(2, 3, 2, "-0v") if _w2(sp) <= 2 and any(
            x == '0' for a in sp if a is not None for b in a if b is not None for x in b)]
    if name == "T3(2,2,2;-0v;<=2)":
        # trees with explicit defaults, at most two stored leaves (sub-fibers holding only explicit defaults below
        # the top rank are what the depth > 0 forms of swap / unflatten must still transform)
        def _w(sp):
            return sum(1 for a in sp if a is not None for b in a if b is not None for x in b if x != '-')
        return (2, 2, 2), [sp for sp in t3(2, 2, 2, "-0v") if _w(sp) <= 2 and any(
            x == '0' for a in sp if a is not None for b in a if b is not None for x in b)]
    if name == "T4c(2,2,2,2;<=4|>=15)":
        return (2, 2, 2, 2), R.t4c_specs((2, 2, 2, 2), at_most=4, at_least=15)
    if name == "T4c(3,1,2,1;<=3)":
        return (3, 1, 2, 1), R.t4c_specs((3, 1, 2, 1), at_most=3)
    if name.startswith("NZ("):
        dims = tuple(int(x) for x in name[3:name.index(";")].split(","))
        return dims, R.tn_specs(dims, name[name.index(";") + 1:-1])
    raise ValueError(name)


# Three upper coordinates whose payloads are fibers of fibers collide under mergeRanks(depth=0, levels=1,
# 'absolute' / 'relative') (minimal: points (0,0,1,0), (1,0,1,0), (2,0,0,0)): found by the round-4 builder on the
# unchanged tree (TypeError in Fiber._mergeToFibertree), repaired by fix fb9f833; part of both tiers since.
REPAIRED_PLAN = [("T4c(3,1,2,1;<=3)", ("ts", "te", "f"), ("merge",), None)]

# Non-zero leaf default (cells NZ_CELLS) and 4-rank trees with empty interior fibers: (universe, forms, groups, defaults).
# The sub-cases of the sub-families named in PENDING are left out (Chk.gate) and run through PENDING_PLAN instead.
_TF = ("ts", "f")
_TEF = ("ts", "te", "f")
NZ_QUICK = [("NZ(2,2;-z0v)", _TEF, NZ_GROUPS, (7, -1)),
            ("NZ(2,1,2;-z0v)", _TF, NZ_GROUPS, (7, -1)),
            ("NZ(1,2,1,2;-z0v)", _TF, ("flatten", "merge"), (7, -1)),
            ("NZ(1,2,1,2;-0v)", _TF, ("flatten", "merge"), (0,))]
NZ_THOROUGH = [("NZ(2,2;-z0v)", _TEF, NZ_GROUPS, (7, -1)),
               ("NZ(3,2;-z0v)", _TEF, NZ_GROUPS, (7, -1)),
               ("NZ(2,1,2;-z0v)", _TEF, NZ_GROUPS, (7, -1)),
               ("NZ(2,2,1;-z0v)", _TEF, NZ_GROUPS, (7, -1)),
               ("NZ(1,2,1,2;-z0v)", _TEF, NZ_GROUPS, (7, -1)),
               ("NZ(2,1,2,1;-z0v)", _TF, NZ_GROUPS, (7, -1)),
               ("NZ(1,2,1,2;-0v)", _TEF, ("flatten", "merge"), (0,)),
               ("NZ(2,1,2,1;-0v)", _TEF, ("flatten", "merge"), (0,))]
# `./check C09 --only pending`: only the sub-cases of the PENDING sub-families (not part of run())
PENDING_PLAN = [("NZ(2,1,2;-z0v)", _TF, ("merge",), (7, -1)),
                ("NZ(1,2,1,2;-z0v)", _TF, ("flatten", "merge"), (7, -1)),
                ("NZ(1,2,1,2;-0v)", _TF, ("flatten",), (0,)),
                ("NZ(2,1,2,1;-0v)", ("ts",), ("flatten",), (0,))]


def _is_empty_spec(spec):
    return all(x is None for x in spec)


def shard_tree(acc, shard, nshards, params):
    name, forms, groups, deadline = params
    dims, specs = _universe(name)

    def gen():
        for spec in specs:
            for form in forms:
                for g in groups:
                    yield (dims, spec, form, g)
            if _is_empty_spec(spec):
                # the empty tensor as the constructor makes it
                for form in ("tn", "tm"):
                    if any(f.startswith("t") for f in forms):
                        for g in groups:
                            yield (dims, spec, form, g)
    drive(acc, "tree", case_tree, gen(), shard, nshards,
          family="%s[%s]" % (name, "+".join(forms)), deadline=deadline)


def run(ctx):
    q = ctx.quick
    import time as _t
    if not getattr(ctx, "only", None) or "compose" in ctx.only:
        ctx.shards(shard_compose, (2, 3 if q else 4, _t.time() + (60 if q else 600)))
        ctx.shards(shard_compose, (3, 1 if q else 2, _t.time() + (60 if q else 900)))
        ctx.shards(shard_compose, (4, 2 if q else 3, _t.time() + (60 if q else 900)))
        from mc import compose as _c
        ctx.shards(shard_compose, (3, 1 if q else 2, _t.time() + (60 if q else 900), _c.DIMS3))

    allf = ("ts", "te", "f")
    if q:
        plan = [("T2(3,2)", allf, GROUPS, None),
                ("T3(2,2,2;-v)", allf, GROUPS, None),
                ("T3(2,3,2;-0v;<=2)", ("ts",), GROUPS, None)]
    else:
        plan = [("T2(3,2)", allf, GROUPS, None),
                ("T2(3,3)", allf, GROUPS, None),
                ("T3(2,2,2)", allf, GROUPS, None),
                ("T4c(2,2,2,2;<=4|>=15)", ("ts", "f"), GROUPS, 900)]
    plan += list(REPAIRED_PLAN)
    nzplan = [p + ("",) for p in (NZ_QUICK if q else NZ_THOROUGH)]
    only = getattr(ctx, "only", None)
    if only and "pending" in only:
        plan = []
        nzplan = [p + ("pending",) for p in PENDING_PLAN] if PENDING else []
        only = None
    from mc import compose as _cd
    ctx.bounds = {
        "compose": _cd.describe(q),
        "universes": [p[0] + " as " + "/".join(p[1]) for p in plan],
        "non_zero_default": {
            "universes": ["%s as %s, leaf default %s, groups %s%s" % (p[0], "/".join(p[1]), "/".join(map(str, p[3])),
                                                                      "/".join(p[2]), " (PENDING sub-cases only)" if p[4] else "")
                          for p in nzplan],
            "trees": "NZ(extents;cells): every tree of that depth over the leaf cells '-' absent, 'z' stored 0, '0' "
                     "explicit default, 'v' position-tagged value; every fiber may be absent or stored empty; leaf "
                     "default 7 / -1 (with leaf default 0 and cells -0v: the 4-rank trees with empty interior fibers "
                     "the other universes lack); raw form only for trees without an empty interior fiber",
            "judged": "content read with the leaf default (a stored 0 is a point), Tensor results keep the leaf default; "
                      "swizzle / swap / flatten+unflatten / merge with the parameter sets of the groups below",
            "kept_out_of_run": sorted(PENDING),
        },
        "forms": "ts = Tensor.fromFiber with declared shape, te = Tensor.fromFiber with estimated shape, f = raw fiber "
                 "tree with Fiber(shape=); the empty tree additionally as Tensor(rank_ids=..., shape=...) (tn) and "
                 "Tensor(rank_ids=...) (tm)",
        "swizzle": "swizzleRanks for every permutation of the rank ids followed by the swizzle back; swapRanks(depth) "
                   "for every depth, applied twice; raw: Fiber.swapRanks / swapRanksBelow",
        "flatten": "flattenRanks(depth, levels, style) for every legal (depth, levels) x {tuple,pair,linear,absolute,"
                   "relative}, followed by unflattenRanks(depth, levels) for tuple and pair; raw: flattenRanks, "
                   "flattenRanksBelow, unflattenRanks, unflattenRanksBelow",
        "merge": "mergeRanks(depth, levels, absolute|relative, merge_fn in {None (the documented sum), max}) for every legal "
                 "(depth, levels)",
        "split": "splitUniform / splitEqual with step 1 and 2 at every depth followed by flattenRanks(depth, 1, "
                 "'absolute'); raw: also the *Below forms",
        "update": "updateCoords(shift by 1 with new_shape, order-reversing) at every depth; updatePayloads at every "
                  "depth (leaf values x10 at the leaf rank, identity on sub-fibers with the offered coordinates checked)",
    }
    for name, forms, groups, deadline in plan:
        if only and not any(name.startswith(o) for o in only):
            continue
        ctx.shards(shard_tree, (name, forms, groups, None if deadline is None else time.time() + deadline))
    for name, forms, groups, defaults, sub in nzplan:
        if only and not any(name.startswith(o) for o in only):
            continue
        ctx.shards(shard_nz, (name, forms, groups, defaults, sub, time.time() + (120 if q else 900)))

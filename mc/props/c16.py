"""C16 - traces are well-formed: one sorted, correctly addressed row per traced
event.

E2 over programs x inputs x configurations: loop nests of depth 1-3 in the
library's idiom over every operand tree of small universes (explicit defaults,
empty and zero-only sub-fibers included), every trace type the nest can emit,
every flush threshold up to rows+2, file and consumable traces.  The expected
rows come from an independent simulation of the nest (two-finger merge over the
presented coordinate lists, loop bodies, raw positions in the operand fibers)."""
import glob
import itertools
import os

from fibertree import Fiber, Tensor, Payload, Metrics

from mc import core
from mc.univ import f1, t2, present, stored

LEVEL = "exploration"
RULE = ("cases = (loop nest, operand trees) enumerated by nested loops; every case is run once per flush threshold and once "
        "with consumable traces, all registered trace types at once; non-trivial = at least one traced access happened")
ASSUMPTIONS = [
    "loop nests: single iteration, single intersection, iteration over intersection (2 levels), matrix-vector with populate "
    "(2 levels), Gustavson matrix-matrix (3 levels), projection",
    "destination-side populate traces (populate_read_i / populate_write_i) are only required to be stamp-ordered, complete in "
    "the sense of threshold/consumable independence, and headed correctly (the property's parenthesis)",
    "position of a row of a lazily produced co-iteration result = ordinal of the element among those the result yields",
]

BIG = 1000


# ---------------------------------------------------------------------------
# helpers

def mkrow(cells, tag=1):
    cs = [i for i, x in enumerate(cells) if x != '-']
    ps = [0 if cells[i] == '0' else tag * 10 + i + 1 for i in cs]
    return Fiber(cs, ps)


def mk2(spec, tag=1):
    cs, ps = [], []
    for m, cells in enumerate(spec):
        if cells is None:
            continue
        cs.append(m)
        ps.append(mkrow(cells, tag))
    return Fiber(cs, ps)


def rawpos(cells, c):
    return [i for i, x in enumerate(cells) if x != '-'].index(c)


def rawpos_top(spec, m):
    return [i for i, x in enumerate(spec) if x is not None].index(m)


def live_rows(spec):
    return [m for m, cells in enumerate(spec) if cells is not None and present(cells)]


def sim_and(a, b):
    """Two-finger merge over presented lists: (matches, a-side rows, b-side rows);
    rows = consumed coordinates plus the trailing peek of the unexhausted side."""
    i = j = 0
    ar, br, m = [], [], []
    while i < len(a) and j < len(b):
        if a[i] == b[j]:
            ar.append(a[i])
            br.append(b[j])
            m.append(a[i])
            i += 1
            j += 1
        elif a[i] < b[j]:
            ar.append(a[i])
            i += 1
        else:
            br.append(b[j])
            j += 1
    if i < len(a):
        ar.append(a[i])
    if j < len(b):
        br.append(b[j])
    return m, ar, br


def read_files(prefix):
    out = {}
    for fn in sorted(glob.glob(prefix + "-*.csv")):
        key = os.path.basename(fn)[len(os.path.basename(prefix)) + 1:-4]
        with open(fn) as f:
            lines = [ln.rstrip("\n").split(",") for ln in f if ln.strip() != ""]
        os.remove(fn)
        rank, _, typ = key.rpartition("-")
        def num(ln):
            try:
                return [int(x) for x in ln]
            except ValueError:
                return ln            # malformed row: kept as text, reported by check_trace
        rows = [lines[0]] + [num(ln) for ln in lines[1:]] if lines else []
        out[(rank, typ)] = rows
    return out


def collect(nest_fn, regs, thr, consumable):
    prefix = os.path.join(core.scratch(), "c16")
    Metrics.beginCollect(None if consumable else prefix)
    got = {}
    try:
        Metrics.setNumCachedUses(thr)
        for r, t in regs:
            Metrics.trace(r, type_=t, consumable=consumable)
        nest_fn()
        if consumable:
            for r, t in regs:
                rows = Metrics.consumeTrace(r, t)
                got[(r, t)] = [list(x) for x in rows]
    finally:
        try:
            if consumable and Metrics.isCollecting():
                for r, t in regs:
                    try:
                        Metrics.consumeTrace(r, t)
                    except Exception:
                        pass
            Metrics.endCollect()
        finally:
            Metrics.setNumCachedUses(BIG)
    if not consumable:
        got = read_files(prefix)
    return got


def collect_polled(nest_fn, regs):
    """Consumable traces polled before anything was traced (the chunk is kept), after the nest, and once more: the
    chunks delivered, in order, are the trace - a chunk handed out is the caller's and does not grow later."""
    Metrics.beginCollect(None)
    chunks = {k: [] for k in regs}
    try:
        Metrics.setNumCachedUses(BIG)
        for r, t in regs:
            Metrics.trace(r, type_=t, consumable=True)
        for rnd in range(3):
            if rnd == 1:
                nest_fn()
            for r, t in regs:
                chunks[(r, t)].append(Metrics.consumeTrace(r, t))
    finally:
        try:
            if Metrics.isCollecting():
                for r, t in regs:
                    try:
                        Metrics.consumeTrace(r, t)
                    except Exception:
                        pass
            Metrics.endCollect()
        finally:
            Metrics.setNumCachedUses(BIG)
    return {k: [list(x) for ch in v for x in ch] for k, v in chunks.items()}


def collect_both(nest_fn, regs, order):
    """Every trace registered as a file trace AND as a consumable trace."""
    prefix = os.path.join(core.scratch(), "c16b")
    Metrics.beginCollect(prefix)
    consumed = {}
    try:
        Metrics.setNumCachedUses(BIG)
        for r, t in regs:
            for cons in ((False, True) if order == "file-first" else (True, False)):
                Metrics.trace(r, type_=t, consumable=cons)
        nest_fn()
        for r, t in regs:
            consumed[(r, t)] = [list(x) for x in Metrics.consumeTrace(r, t)]
    finally:
        try:
            if Metrics.isCollecting():
                for r, t in regs:
                    try:
                        Metrics.consumeTrace(r, t)
                    except Exception:
                        pass
            Metrics.endCollect()
        finally:
            Metrics.setNumCachedUses(BIG)
    return read_files(prefix), consumed


def lex_ok(stamps, strict):
    for i in range(len(stamps) - 1):
        if strict:
            if not stamps[i] < stamps[i + 1]:
                return False
        elif not stamps[i] <= stamps[i + 1]:
            return False
    return True


def check_trace(fam, key, rows, ranks, exp, feats, out, strict, pos_dm=None):
    """rows: header + int rows; ranks: loop ranks down to the traced one;
    exp: list of (point tuple, pos) or None for 'generic checks only'."""
    n = len(ranks)
    r, t = key
    f = set(feats) | {"trace:" + t, "loop-depth:%d" % n, "nest:" + fam}
    fam = "trace-" + t.rstrip("0123456789").rstrip("_")
    if not rows:
        if exp:
            out.append((fam, "trace-missing", f, exp, None))
        elif t == "iter" and n == 1:
            # the outermost loop of a nest always starts, also over an empty fiber: its iteration trace has its header
            out.append((fam, "header-missing", f | {"outermost_loop_over_nothing"},
                        [x + "_pos" for x in ranks] + list(ranks) + ["fiber_pos"], None))
        return
    header = [x + "_pos" for x in ranks] + list(ranks) + ["fiber_pos"]
    if rows[0] != header:
        out.append((fam, "header", f, header, rows[0]))
        return
    body = rows[1:]
    if any(len(x) != 2 * n + 1 or any(not isinstance(v, int) for v in x) for x in body):
        out.append((fam, "row-malformed", f, "%d integer fields" % (2 * n + 1), body))
        return
    stamps = [tuple(x[:n]) for x in body]
    if not lex_ok(stamps, strict):
        out.append((fam, "stamps-not-%s" % ("strictly-increasing" if strict else "non-decreasing"), f, None, stamps))
    if exp is None:
        return
    pts = [tuple(x[n:2 * n]) for x in body]
    if pts != [e[0] for e in exp]:
        out.append((fam, "rows-coordinates", f, [e[0] for e in exp], pts))
        return
    pos = [x[-1] for x in body]
    epos = [e[1] for e in exp]
    if pos != epos:
        f2 = set(f)
        if pos_dm is not None and pos == pos_dm:
            f2.add("dm:position-is-ordinal-among-presented-elements")
        out.append((fam, "row-position", f2, epos, pos))


def compare_runs(fam, base, other, what, feats, out):
    for key in sorted(set(base) | set(other)):
        if base.get(key, []) != other.get(key, []):
            out.append((fam, what, set(feats) | {"trace:" + key[1]}, base.get(key), other.get(key)))
            return


def run_all(fam, nest_fn, regs, feats, out):
    """Baseline + every threshold + consumable; returns the baseline traces."""
    try:
        base = collect(nest_fn, regs, BIG, False)
    except Exception as ex:
        out.append((fam, "exception:" + type(ex).__name__, set(feats) | {"site:" + core.exc_site(ex)},
                    None, core.tb_tail(ex)))
        return None
    nrows = max([len(v) for v in base.values()] + [0])
    try:
        for thr in range(2, min(nrows + 2, 9) + 1):
            o = collect(nest_fn, regs, thr, False)
            compare_runs(fam, base, o, "content-depends-on-flush-threshold", set(feats) | {"thr:%d" % thr}, out)
        # a trace's rows do not depend on which other traces are registered
        if len(regs) > 1:
            def strip(rows):
                # header + (coordinates, position) of every row: stamps may legitimately differ,
                # because registering a trace can add iteration ticks
                if not rows:
                    return []
                n = (len(rows[0]) - 1) // 2
                return [rows[0]] + [r[n:] for r in rows[1:]]
            for one in regs:
                o = collect(nest_fn, [one], BIG, False)
                a, b = strip(o.get(one, [])), strip(base.get(one, []))
                if a != b and (len(a) > 1 or len(b) > 1):
                    f2 = set(feats) | {"trace:" + one[1], "alone", "nest:" + fam}
                    it = iter(b[1:])
                    if a and a[0] == b[0] and all(any(r == x for x in it) for r in a[1:]):
                        f2.add("dm:alone_rows_are_a_subsequence_of_rows_with_all_registered")
                    out.append(("trace-" + one[1].rstrip("0123456789").rstrip("_"),
                                "rows-depend-on-other-registrations", f2, b, a))
        o = collect(nest_fn, regs, BIG, True)
        # a consumable trace that never started delivers nothing; files then do not exist either
        o = {k: v for k, v in o.items() if v}
        b = {k: v for k, v in base.items() if v}
        compare_runs(fam, b, o, "consumable-rows-differ-from-file-rows", feats, out)
        o = {k: v for k, v in collect_polled(nest_fn, regs).items() if v}
        compare_runs(fam, b, o, "consumable-rows-differ-when-polled-before-and-after", set(feats) | {"polled_early"}, out)
        # both modes for the same (rank, type), in either order of registration: the file and the consumed rows
        # are both complete (test_consume_trace_and_write registers consumable first)
        for order in ("file-first", "consumable-first"):
            files, consumed = collect_both(nest_fn, regs, order)
            f2 = set(feats) | {"both-modes:" + order}
            compare_runs(fam, b, {k: v for k, v in files.items() if v}, "file-rows-differ-when-also-consumable", f2, out)
            compare_runs(fam, b, {k: v for k, v in consumed.items() if v},
                         "consumed-rows-differ-when-also-written", f2, out)
    except Exception as ex:
        out.append((fam, "exception:" + type(ex).__name__, set(feats) | {"site:" + core.exc_site(ex), "rerun"},
                    None, core.tb_tail(ex)))
    if any(len(v) > 1 for v in base.values()):
        core.CUR.nt(fam)
    return base


def feats_cells(*cellss):
    f = set()
    for c in cellss:
        if c is not None and '0' in c:
            f.add("explicit_default")
    return f


# ---------------------------------------------------------------------------
# nests

def case_iter1(case):
    (ac,) = case
    out = []
    a = mkrow(ac)
    a.getRankAttrs().setId("K")

    def nest():
        for k, v in a:
            pass
    base = run_all("iter1", nest, [("K", "iter")], feats_cells(ac), out)
    if base is None:
        return out
    exp = [((k,), rawpos(ac, k)) for k in present(ac)]
    check_trace("iter1", ("K", "iter"), base.get(("K", "iter"), []), ["K"], exp, feats_cells(ac), out, True)
    return out


def _and_expect(ac, bc, prefix=(), a_raw=None, b_raw=None):
    """Expected (rows, ordinal-deviation rows) for intersect_0 / intersect_1 / iter."""
    A, B = present(ac), present(bc)
    m, ar, br = sim_and(A, B)
    e0 = [(prefix + (k,), rawpos(ac, k)) for k in ar]
    e1 = [(prefix + (k,), rawpos(bc, k)) for k in br]
    d0 = [A.index(k) for k in ar]
    d1 = [B.index(k) for k in br]
    it = [(prefix + (k,), i) for i, k in enumerate(m)]
    return e0, e1, d0, d1, it


def case_and1(case):
    ac, bc = case
    out = []
    a, b = mkrow(ac, 1), mkrow(bc, 2)
    a.getRankAttrs().setId("K")
    b.getRankAttrs().setId("K")
    regs = [("K", "iter"), ("K", "intersect_0"), ("K", "intersect_1")]

    def nest():
        for k, (x, y) in a & b:
            pass
    f = feats_cells(ac, bc)
    base = run_all("and1", nest, regs, f, out)
    if base is None:
        return out
    e0, e1, d0, d1, it = _and_expect(ac, bc)
    check_trace("and1", regs[0], base.get(regs[0], []), ["K"], it, f, out, True)
    check_trace("and1", regs[1], base.get(regs[1], []), ["K"], e0, f, out, False, d0)
    check_trace("and1", regs[2], base.get(regs[2], []), ["K"], e1, f, out, False, d1)
    return out


def case_nest2(case):
    r0, r1, bc = case
    out = []
    spec = (r0, r1)
    regs = [("M", "iter"), ("K", "iter"), ("K", "intersect_0"), ("K", "intersect_1")]

    def nest():
        A = Tensor.fromFiber(["M", "K"], mk2(spec), shape=[2, 3])
        Bt = Tensor.fromFiber(["K"], mkrow(bc, 2), shape=[3])
        for m, a_k in A.getRoot():
            for k, (a, b) in a_k & Bt.getRoot():
                pass
    f = feats_cells(r0, r1, bc)
    if r0 is not None and not present(r0):
        f.add("leading_empty_row")
    base = run_all("nest2", nest, regs, f, out)
    if base is None:
        return out
    live = live_rows(spec)
    expM = [((m,), rawpos_top(spec, m)) for m in live]
    check_trace("nest2", regs[0], base.get(regs[0], []), ["M"], expM, f, out, True)
    it, e0, e1, d0, d1 = [], [], [], [], []
    for m in live:
        x0, x1, y0, y1, xi = _and_expect(spec[m], bc, (m,))
        e0 += x0
        e1 += x1
        d0 += y0
        d1 += y1
        it += xi
    rk = ["M", "K"]
    check_trace("nest2", regs[1], base.get(regs[1], []), rk, it, f, out, True)
    check_trace("nest2", regs[2], base.get(regs[2], []), rk, e0, f, out, False, d0)
    check_trace("nest2", regs[3], base.get(regs[3], []), rk, e1, f, out, False, d1)
    return out


def case_matvec(case):
    aspec, bc = case
    out = []
    regs = [("M", "iter"), ("M", "populate_1"), ("M", "populate_read_0"), ("M", "populate_write_0"),
            ("K", "iter"), ("K", "intersect_0"), ("K", "intersect_1")]

    def nest():
        A = Tensor.fromFiber(["M", "K"], mk2(aspec), shape=[2, 2])
        Bt = Tensor.fromFiber(["K"], mkrow(bc, 2), shape=[2])
        Z = Tensor(rank_ids=["M"], shape=[2])
        for m, (z, a_k) in Z.getRoot() << A.getRoot():
            for k, (a, b) in a_k & Bt.getRoot():
                z += a * b
    f = feats_cells(bc, *[c for c in aspec if c is not None])
    if any(c is not None and not present(c) for c in aspec):
        f.add("stored_empty_row")
    base = run_all("matvec", nest, regs, f, out)
    if base is None:
        return out
    live = live_rows(aspec)
    expM = [((m,), i) for i, m in enumerate(live)]                    # lazy populate result: ordinal
    check_trace("matvec", regs[0], base.get(regs[0], []), ["M"], expM, f, out, True)
    expP = [((m,), rawpos_top(aspec, m)) for m in live]                # source side: position in A's root
    check_trace("matvec", regs[1], base.get(regs[1], []), ["M"], expP, f, out, False,
                [i for i, _ in enumerate(live)])
    check_trace("matvec", regs[2], base.get(regs[2], []), ["M"], None, f, out, False)
    check_trace("matvec", regs[3], base.get(regs[3], []), ["M"], None, f, out, False)
    it, e0, e1, d0, d1 = [], [], [], [], []
    for m in live:
        x0, x1, y0, y1, xi = _and_expect(aspec[m], bc, (m,))
        e0 += x0
        e1 += x1
        d0 += y0
        d1 += y1
        it += xi
    rk = ["M", "K"]
    check_trace("matvec", regs[4], base.get(regs[4], []), rk, it, f, out, True)
    check_trace("matvec", regs[5], base.get(regs[5], []), rk, e0, f, out, False, d0)
    check_trace("matvec", regs[6], base.get(regs[6], []), rk, e1, f, out, False, d1)
    return out


def case_matmul3(case):
    aspec, bspec = case
    out = []
    regs = [("M", "iter"), ("K", "iter"), ("N", "iter"), ("K", "intersect_0"), ("K", "intersect_1"),
            ("M", "populate_1"), ("N", "populate_1"), ("N", "populate_read_0"), ("N", "populate_write_0"),
            ("M", "populate_read_0"), ("M", "populate_write_0")]

    def nest():
        A = Tensor.fromFiber(["M", "K"], mk2(aspec), shape=[2, 2])
        B = Tensor.fromFiber(["K", "N"], mk2(bspec, 2), shape=[2, 2])
        Z = Tensor(rank_ids=["M", "N"], shape=[2, 2])
        for m, (z_n, a_k) in Z.getRoot() << A.getRoot():
            for k, (a, b_n) in a_k & B.getRoot():
                for n, (z, b) in z_n << b_n:
                    z += a * b
    f = feats_cells(*[c for c in aspec + bspec if c is not None])
    base = run_all("matmul3", nest, regs, f, out)
    if base is None:
        return out
    liveA = live_rows(aspec)
    liveB = live_rows(bspec)
    bodiesK, bodiesN = [], []
    for m in liveA:
        # a_k & B.getRoot(): a_k presents its non-default leaves; B's root presents its non-empty rows
        mm, _, _ = sim_and(present(aspec[m]), liveB)
        for i, k in enumerate(mm):
            bodiesK.append(((m, k), i))
            for j, n in enumerate(present(bspec[k])):
                bodiesN.append(((m, k, n), j))
    check_trace("matmul3", regs[0], base.get(regs[0], []), ["M"], [((m,), i) for i, m in enumerate(liveA)], f, out, True)
    check_trace("matmul3", regs[1], base.get(regs[1], []), ["M", "K"], bodiesK, f, out, True)
    check_trace("matmul3", regs[2], base.get(regs[2], []), ["M", "K", "N"], bodiesN, f, out, True)
    depth = {"M": ["M"], "K": ["M", "K"], "N": ["M", "K", "N"]}
    for key in regs[3:]:
        check_trace("matmul3", key, base.get(key, []), depth[key[0]], None, f, out, False)
    return out


def case_project(case):
    ac, shift, sp = case
    out = []
    a = mkrow(ac)
    a.getRankAttrs().setId("K")
    regs = [("K", "project_0"), ("M", "iter")]

    def nest():
        for m, p in a.project(trans_fn=lambda k: k + shift, rank_id="M", start_pos=sp):
            pass
    f = feats_cells(ac) | ({"start_pos"} if sp is not None else set())
    base = run_all("project", nest, regs, f, out)
    if base is None:
        return out
    st = stored(ac)
    first = 0 if sp is None else sp
    pres = [k for k in present(ac) if st.index(k) >= first]
    exp = [((k,), st.index(k)) for k in pres]
    dm = [first + i for i, _ in enumerate(pres)]
    rows = base.get(("K", "project_0"), [])
    # the projection trace is headed by the destination rank the source rank is matched to
    # the projection trace is headed by the destination rank (the source rank is matched to it)
    exp = [((k + shift,) if False else (k,), pos) for (k,), pos in exp]
    check_trace("project", ("K", "project_0"), rows, ["M"], exp, f, out, False, dm)
    expM = [((k + shift,), i) for i, k in enumerate(pres)]
    check_trace("project", ("M", "iter"), base.get(("M", "iter"), []), ["M"], expM, f, out, True)
    return out


def sim_popins(zc, ac, n):
    """Rows (coordinate, position) of populate_read_0 / populate_write_0 for z << a into a compressed destination with
    authoritative shape n, both traces registered, every offered element updated to a non-default value; z stores no
    explicit defaults.  Positions: an existing element is read at its index in z; an element inserted below z's
    last coordinate is staged at n + (number staged before it); after the loop everything from the first
    insertion point on is moved to its final index (read from the old index or the staging slot, written to the
    final one), last element first."""
    Z = stored(zc)
    A = present(ac)
    coords = list(Z)
    inserting = bool(Z) and bool(A) and A[0] < max(Z)
    reads, writes = [], []
    a_pos, old_end, to_insert, start = 0, 0, [], None
    for b in A:
        if inserting and a_pos < len(coords):
            for i in range(a_pos, len(coords)):
                if old_end <= coords[i] < b:
                    reads.append((coords[i], i - len(to_insert)))
        a_pos += len([c for c in coords[a_pos:] if c < b])
        if a_pos < len(coords) and coords[a_pos] == b:
            reads.append((b, a_pos - len(to_insert)))
            writes.append((b, a_pos - len(to_insert)))
        else:
            coords.insert(a_pos, b)
            if inserting:
                old_end = b + 1
                writes.append((b, n + len(to_insert)))
                to_insert.append(b)
                if start is None:
                    start = a_pos
            else:
                writes.append((b, a_pos - len(to_insert)))
        a_pos += 1
    if inserting and to_insert:
        for i, c in enumerate(reversed(coords[start:])):
            wp = len(coords) - i - 1
            if c == to_insert[-1]:
                rp = n + len(to_insert) - 1
                to_insert.pop()
            else:
                rp = wp - len(to_insert)
            reads.append((c, rp))
            writes.append((c, wp))
    return reads, writes


def case_popins(case):
    """Populate into a non-empty destination (inserting / appending / overwriting):
    z_k << a_k with the body accumulating.  Destination-side traces: header, stamp
    order, independence of threshold / consumable / other registrations; source
    side and iter: full row check."""
    zc, ac = case
    out = []
    n = len(zc)
    regs = [("K", "iter"), ("K", "populate_1"), ("K", "populate_read_0"), ("K", "populate_write_0")]

    def nest():
        Z = Tensor.fromFiber(["K"], mkrow(zc, 3), shape=[n])
        a = mkrow(ac, 2)
        a.getRankAttrs().setId("K")
        for k, (zr, av) in Z.getRoot() << a:
            zr += av
    f = feats_cells(zc, ac)
    A = present(ac)
    Zs = stored(zc)
    if Zs and A and A[0] < Zs[-1]:
        f.add("inserting")
    base = run_all("popins", nest, regs, f, out)
    if base is None:
        return out
    check_trace("popins", regs[0], base.get(regs[0], []), ["K"], [((k,), i) for i, k in enumerate(A)], f, out, True)
    check_trace("popins", regs[1], base.get(regs[1], []), ["K"], [((k,), rawpos(ac, k)) for k in A], f, out, False,
                list(range(len(A))))
    if '0' not in zc:
        er, ew = sim_popins(zc, ac, n)
        check_trace("popins", regs[2], base.get(regs[2], []), ["K"], [((c,), p_) for c, p_ in er], f, out, False)
        check_trace("popins", regs[3], base.get(regs[3], []), ["K"], [((c,), p_) for c, p_ in ew], f, out, False)
    else:
        check_trace("popins", regs[2], base.get(regs[2], []), ["K"], None, f, out, False)
        check_trace("popins", regs[3], base.get(regs[3], []), ["K"], None, f, out, False)
    return out


def case_flat2(case):
    """Upper rank with tuple coordinates (a flattened rank, shape associated for
    the trace), plain rank below: rows carry the flattened upper coordinate."""
    spec, = case
    out = []
    TUP = [(0, 0), (0, 1), (1, 0), (1, 1)]
    regs = [("MK", "iter"), ("N", "iter")]

    def nest():
        cs, ps = [], []
        for i, cells in enumerate(spec):
            if cells is None:
                continue
            cs.append(TUP[i])
            ps.append(mkrow(cells))
        A = Tensor.fromFiber(["MK", "N"], Fiber(cs, ps), shape=[(2, 2), 2])
        Metrics.associateShape("MK", (2, 2))
        for mk, a_n in A.getRoot():
            for nn, v in a_n:
                pass
    f = feats_cells(*[c for c in spec if c is not None]) | {"tuple_upper_rank"}
    base = run_all("flat2", nest, regs, f, out)
    if base is None:
        return out
    live = [i for i, c in enumerate(spec) if c is not None and present(c)]
    st = [i for i, c in enumerate(spec) if c is not None]
    expU = [((TUP[i][0] * 2 + TUP[i][1],), st.index(i)) for i in live]
    check_trace("flat2", regs[0], base.get(regs[0], []), ["MK"], expU, f, out, True)
    expN = []
    for i in live:
        for k in present(spec[i]):
            expN.append(((TUP[i][0] * 2 + TUP[i][1], k), rawpos(spec[i], k)))
    check_trace("flat2", regs[1], base.get(regs[1], []), ["MK", "N"], expN, f, out, True)
    return out


def case_popU(case):
    """Populate into a destination whose rank is declared uncompressed (never an
    inserting populate): destination-side rows address the element's index in the
    destination at the time of the access."""
    zc, ac = case
    out = []
    n = len(zc)
    regs = [("K", "iter"), ("K", "populate_1"), ("K", "populate_read_0"), ("K", "populate_write_0")]

    def nest():
        Z = Tensor.fromFiber(["K"], mkrow(zc, 3), shape=[n])
        Z.setFormat("K", "U")
        a = mkrow(ac, 2)
        a.getRankAttrs().setId("K")
        for k, (zr, av) in Z.getRoot() << a:
            zr += av
    f = feats_cells(zc, ac) | {"destination_uncompressed"}
    base = run_all("popU", nest, regs, f, out)
    if base is None:
        return out
    A = present(ac)
    cur = list(stored(zc))
    reads, writes = [], []
    import bisect
    for k in A:
        i = bisect.bisect_left(cur, k)
        if i < len(cur) and cur[i] == k:
            reads.append(((k,), i))
        else:
            cur.insert(i, k)
        writes.append(((k,), i))
    check_trace("popU", regs[0], base.get(regs[0], []), ["K"], [((k,), i) for i, k in enumerate(A)], f, out, True)
    check_trace("popU", regs[1], base.get(regs[1], []), ["K"], [((k,), rawpos(ac, k)) for k in A], f, out, False,
                list(range(len(A))))
    check_trace("popU", regs[2], base.get(regs[2], []), ["K"], reads, f, out, False)
    check_trace("popU", regs[3], base.get(regs[3], []), ["K"], writes, f, out, False)
    return out


def case_projpop2(case):
    """The HiFiber idiom for a projected populate, executed once per row of an
    outer loop: (z_n << a_m.project(tick=True, rank_id="N")).iterOccupancy(tick=False).
    Every execution of the inner loop must leave its rows in the source-side trace."""
    aspec, = case
    out = []
    regs = [("J", "iter"), ("N", "populate_1"), ("N", "populate_write_0"), ("N", "populate_read_0")]

    def nest():
        A = Tensor.fromFiber(["J", "M"], mk2(aspec), shape=[2, 3])
        Z = Tensor(rank_ids=["J", "N"], shape=[2, 3])
        for j, (z_n, a_m) in Z.getRoot() << A.getRoot():
            for _, (z_ref, a_val) in (z_n << a_m.project(tick=True, rank_id="N")).iterOccupancy(tick=False):
                z_ref += a_val
    f = feats_cells(*[c for c in aspec if c is not None]) | {"projected_populate"}
    base = run_all("projpop2", nest, regs, f, out)
    if base is None:
        return out
    live = live_rows(aspec)
    check_trace("projpop2", regs[0], base.get(regs[0], []), ["J"], [((j,), i) for i, j in enumerate(live)], f, out, True)
    exp, dm = [], []
    for j in live:
        for i, m in enumerate(present(aspec[j])):
            exp.append(((j, m), rawpos(aspec[j], m)))
            dm.append(i)
    rows = base.get(regs[1], [])
    ranks = rows[0][2:4] if rows and len(rows[0]) == 5 else ["J", "M"]
    check_trace("projpop2", regs[1], rows, ranks, exp, f, out, False, dm)
    for key in regs[2:]:
        rows = base.get(key, [])
        check_trace("projpop2", key, rows, rows[0][2:4] if rows and len(rows[0]) == 5 else ["J", "M"], None, f, out, False)
        # completeness in the only sense the property gives for destination-side traces of an appending populate:
        # one write row per loop body
        if key[1] == "populate_write_0" and rows and len(rows) - 1 != len(exp):
            out.append(("trace-populate_write", "row-count", set(f) | {"nest:projpop2"}, len(exp), len(rows) - 1))
    return out


# ---------------------------------------------------------------------------

def shard_popU(acc, shard, nshards, params):
    u = f1(params)
    core.drive(acc, "popU", case_popU, ((z, a) for z in u for a in u), shard, nshards,
               family="populate-into-uncompressed-destination[N=%d]" % params)


def shard_projpop2(acc, shard, nshards, params):
    core.drive(acc, "projpop2", case_projpop2, ((a,) for a in t2(2, 3)), shard, nshards,
               family="projected-populate-per-row[A in T2(2,3)]")


def shard_popins(acc, shard, nshards, params):
    u = f1(params)
    core.drive(acc, "popins", case_popins, ((z, a) for z in u for a in u), shard, nshards,
               family="populate-into-nonempty[N=%d]" % params)


def shard_flat2(acc, shard, nshards, params):
    u = [None] + f1(2)
    core.drive(acc, "flat2", case_flat2, ((sp,) for sp in itertools.product(u, repeat=4)), shard, nshards,
               family="tuple-upper-rank[4 tuple coordinates x F1(2)]")


def shard_iter1(acc, shard, nshards, params):
    core.drive(acc, "iter1", case_iter1, ((c,) for c in f1(params)), shard, nshards, family="iter1[N=%d]" % params)


def shard_and1(acc, shard, nshards, params):
    u = f1(params)
    core.drive(acc, "and1", case_and1, ((a, b) for a in u for b in u), shard, nshards, family="and1[N=%d]" % params)


def shard_nest2(acc, shard, nshards, params):
    u = [None] + f1(3) if params else f1(3)
    u2 = f1(3)
    core.drive(acc, "nest2", case_nest2, ((r0, r1, b) for r0 in u for r1 in u for b in u2),
               shard, nshards, family="nest2[rows in F1(3)%s, b in F1(3)]" % ("+absent" if params else ""))


def shard_matvec(acc, shard, nshards, params):
    core.drive(acc, "matvec", case_matvec, ((a, b) for a in t2(2, 2) for b in f1(2)), shard, nshards,
               family="matvec[A in T2(2,2), B in F1(2)]")


def shard_matmul3(acc, shard, nshards, params):
    ua = [s for s in t2(2, 2) if _w(s) <= params]
    core.drive(acc, "matmul3", case_matmul3, ((a, b) for a in ua for b in ua), shard, nshards,
               family="matmul3[A,B in T2(2,2) with <=%d stored leaves]" % params)


def _w(spec):
    return sum(sum(1 for x in c if x != '-') for c in spec if c is not None)


def shard_project(acc, shard, nshards, params):
    def gen():
        for ac in f1(params):
            n = len(stored(ac))
            for shift in (0, 3):
                for sp in [None] + list(range(n)):
                    yield (ac, shift, sp)
    core.drive(acc, "project", case_project, gen(), shard, nshards, family="project[N=%d]" % params)


def case_lf1(case):
    """Leader-follower intersection: the leader's presented elements are traced as intersect_0, every look-up in the
    follower (one per leader element, whether it finds the coordinate or not, also beyond the follower's last
    coordinate) as intersect_1 with the position the search ends at."""
    ac, bc = case
    out = []
    a, b = mkrow(ac, 1), mkrow(bc, 2)
    a.getRankAttrs().setId("K")
    b.getRankAttrs().setId("K")
    regs = [("K", "intersect_0"), ("K", "intersect_1")]

    def nest():
        for k, (x, y) in Fiber.intersection(a, b, style="leader-follower"):
            pass
    f = feats_cells(ac, bc) | {"style:leader-follower"}
    bstored = [i for i, x in enumerate(bc) if x != '-']
    if present(ac) and (not bstored or max(present(ac)) > max(bstored)):
        f.add("leader_reaches_beyond_follower")
    base = run_all("lf1", nest, regs, f, out)
    if base is None:
        return out
    A = present(ac)
    e0 = [((k,), rawpos(ac, k)) for k in A]
    e1 = [((k,), len([c for c in bstored if c < k])) for k in A]
    check_trace("lf1", regs[0], base.get(regs[0], []), ["K"], e0, f, out, False, [A.index(k) for k in A])
    check_trace("lf1", regs[1], base.get(regs[1], []), ["K"], e1, f, out, False)
    return out


def shard_lf1(acc, shard, nshards, params):
    u = f1(params)
    core.drive(acc, "lf1", case_lf1, ((a, b) for a in u for b in u), shard, nshards, family="lf1[N=%d]" % params)


def case_iter1sp(case):
    """A traced iteration resumed at a start position: rows carry the element's index in the fiber, not the offset
    from the start position."""
    ac, sp = case
    out = []
    a = mkrow(ac)
    a.getRankAttrs().setId("K")

    def nest():
        for k, v in a.iterOccupancy(start_pos=sp):
            pass
    f = feats_cells(ac) | {"start_pos>0"}
    base = run_all("iter1sp", nest, [("K", "iter")], f, out)
    if base is None:
        return out
    st = stored(ac)
    exp = [((k,), rawpos(ac, k)) for k in present(ac) if rawpos(ac, k) >= sp]
    check_trace("iter1sp", ("K", "iter"), base.get(("K", "iter"), []), ["K"], exp, f, out, True)
    return out


def shard_iter1sp(acc, shard, nshards, params):
    cases = ((c, sp) for c in f1(params) for sp in range(1, len(stored(c))))
    core.drive(acc, "iter1sp", case_iter1sp, cases, shard, nshards, family="iter1sp[N=%d]" % params)


def case_seq2(case):
    """Two loops at the same rank one after the other: a bounded range loop that stops at an element beyond its end,
    then an intersection.  The rows of the second loop (stamps included) are those it produces on its own."""
    ac, bc, e = case
    out = []
    regs = [("K", "intersect_0"), ("K", "intersect_1")]

    def mk():
        a, b = mkrow(ac, 1), mkrow(bc, 2)
        a.getRankAttrs().setId("K")
        b.getRankAttrs().setId("K")
        return a, b

    def alone():
        a, b = mk()
        for k, (x, y) in a & b:
            pass

    def after_range():
        a, b = mk()
        for k, v in a.iterRange(0, e):
            pass
        for k, (x, y) in a & b:
            pass
    f = feats_cells(ac, bc) | {"second_loop_at_the_same_rank"}
    try:
        r0 = collect(alone, regs, BIG, False)
        r1 = collect(after_range, regs, BIG, False)
        compare_runs("seq2", r0, r1, "rows-of-a-loop-depend-on-an-earlier-loop", f, out)
        core.CUR.nt("seq2")
    except Exception as ex:
        out.append(("seq2", "exception:" + type(ex).__name__, set(f) | {"site:" + core.exc_site(ex)}, None,
                    core.tb_tail(ex)))
    return out


def shard_seq2(acc, shard, nshards, params):
    u = f1(params)
    cases = ((a, b, e) for a in u for b in u for e in range(0, params + 1))
    core.drive(acc, "seq2", case_seq2, cases, shard, nshards, family="seq2[N=%d]" % params)


def case_project2(case):
    """A chain of two projections A -> B -> C (C is the loop rank): each projection gets its own project_<i> trace,
    headed by the loop rank, one row per element read from its source with the source's coordinate and position."""
    ac, s1, s2 = case
    out = []
    a = mkrow(ac)
    a.getRankAttrs().setId("A")
    regs = [("C", "iter"), ("B", "project_0"), ("A", "project_1")]

    def nest():
        f_b = a.project(trans_fn=lambda k: k + s1, rank_id="B")
        f_c = f_b.project(trans_fn=lambda k: k + s2, rank_id="C")
        for c, p in f_c:
            pass
    f = feats_cells(ac) | {"projection_chain"}
    base = run_all("project2", nest, regs, f, out)
    if base is None:
        return out
    pres = present(ac)
    dm = list(range(len(pres)))
    check_trace("project2", regs[0], base.get(regs[0], []), ["C"], [((k + s1 + s2,), i) for i, k in enumerate(pres)],
                f, out, True)
    check_trace("project2", regs[1], base.get(regs[1], []), ["C"], [((k + s1,), i) for i, k in enumerate(pres)],
                f, out, False)
    check_trace("project2", regs[2], base.get(regs[2], []), ["C"], [((k,), rawpos(ac, k)) for k in pres],
                f, out, False, dm)
    return out


def shard_project2(acc, shard, nshards, params):
    cases = ((c, s1, s2) for c in f1(params) for s1 in (1,) for s2 in (0, 10))
    core.drive(acc, "project2", case_project2, cases, shard, nshards, family="project-chain[N=%d]" % params)


CASES = {"project2": case_project2, "iter1sp": case_iter1sp, "seq2": case_seq2, "lf1": case_lf1, "iter1": case_iter1, "and1": case_and1, "nest2": case_nest2, "matvec": case_matvec,
         "matmul3": case_matmul3, "project": case_project, "popins": case_popins, "flat2": case_flat2,
         "popU": case_popU, "projpop2": case_projpop2}


def run(ctx):
    q = ctx.quick
    ctx.bounds = {
        "iter1": "F1(%d)" % (4 if q else 6), "and1": "pairs of F1(%d)" % (3 if q else 4),
        "project2": "a chain of two projections A -> B -> C over F1(4): the loop rank's iter trace and both project_<i> traces",
        "iter1sp": "traced iterOccupancy(start_pos=p) for every p >= 1 over F1(%d)" % (4 if q else 5),
        "seq2": "a bounded iterRange(0, e) loop followed by an intersection at the same rank, pairs of F1(3), every e: the "
                "second loop's rows (with stamps) equal those it produces alone",
        "lf1": "leader-follower intersection of pairs of F1(%d): leader elements (intersect_0) and follower look-ups (intersect_1)" % (3 if q else 4),
        "nest2": "two rows in F1(3)%s x b in F1(3)" % ("" if q else " or absent"),
        "matvec": "A in T2(2,2) x B in F1(2)", "matmul3": "A, B in T2(2,2) with <=%d stored leaves" % (2 if q else 3),
        "project": "F1(%d) x shift {0,3} x every start_pos" % (3 if q else 4),
        "thresholds": "every num_cached_uses in 2..min(rows+2, 9), plus 1000; file and consumable",
    }
    sel = lambda n: not ctx.only or n in ctx.only
    if sel("iter1"):
        ctx.shards(shard_iter1, 4 if q else 6)
    if sel("and1"):
        ctx.shards(shard_and1, 3 if q else 4)
    if sel("lf1"):
        ctx.shards(shard_lf1, 3 if q else 4)
    if sel("project2"):
        ctx.shards(shard_project2, 4)
    if sel("iter1sp"):
        ctx.shards(shard_iter1sp, 4 if q else 5)
    if sel("seq2"):
        ctx.shards(shard_seq2, 3)
    if sel("nest2"):
        ctx.shards(shard_nest2, not q)
    if sel("matvec"):
        ctx.shards(shard_matvec, None)
    if sel("matmul3"):
        ctx.shards(shard_matmul3, 2 if q else 3)
    if sel("project"):
        ctx.shards(shard_project, 3 if q else 4)
    if sel("popins"):
        ctx.shards(shard_popins, 3 if q else 4)
        ctx.bounds["popins"] = "z, a in F1(%d): populate into a non-empty destination (insert / append / overwrite)" % (3 if q else 4)
    if sel("popU"):
        ctx.shards(shard_popU, 3)
        ctx.bounds["popU"] = "z, a in F1(3), destination rank declared uncompressed: destination-side rows checked against the index at access time"
    if sel("projpop2"):
        ctx.shards(shard_projpop2, None)
        ctx.bounds["projpop2"] = "A in T2(2,3): projected populate (tick=True idiom) executed once per row of an outer populate"
    if sel("flat2"):
        ctx.shards(shard_flat2, None)
        ctx.bounds["flat2"] = "upper rank with tuple coordinates over {0,1}^2 (shape associated), rows in F1(2) or absent"

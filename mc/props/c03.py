"""C03 - point access behaves like a map from points to values.

E1: breadth-first search over histories of getPayload / getPayloadRef /
getPosition / getPositionRef / assignment / in-place update (also through
handles obtained earlier) on a real tensor, with a dict point->value stepped
in lock-step as the reference model.  The value alphabet is closed ({0,1,2}),
so the search runs to a fixpoint where the bounds say so."""
import itertools
import time

from fibertree import Fiber, Tensor, Payload

from mc import bfs, core
from mc.obs import hidden_globals, hidden_tensor, rawtree, rawfull, rank_index_view, content, unbox
from mc.univ import mktree, tree_content, RANK_IDS

LEVEL = "model_checking"
RULE = ("states = canonical (raw tree incl. saved positions, rank lists as DFS indices, live handles) reached by "
        "BFS over every enabled access operation with every argument choice; transitions = real API calls, each "
        "compared with a dict point->value reference model; distinct_nontrivial = number of distinct states")
ASSUMPTIONS = [
    "tensors of depth 1-3 over shape 2 (3 for depth 1) per rank; leaf values kept in {0,1,2} by the driver",
    "start_pos shortcuts are only generated when legal (position whose coordinate is <= the coordinate sought)",
    "at most two live handles are part of the state",
    "families with a non-zero leaf default: integer default 5 (read / reference only) and float default 0.5 (all writes); "
    "the source of a fiber assignment through a handle is built with the destination's leaf default, because "
    "f <<= g adopts g's default for the whole rank (explicit in Fiber.__ilshift__) - what that does to other points "
    "is not judged",
]

VMAX = 2
SPEC = "mc.props.c03"
# leaf-level fibers assigned through the handle of a partial point (r <<= g)
ASSIGN = [((), ()), ((0,), (1,)), ((1,), (2,)), ((0, 1), (1, 1))]


class St:
    pass


def build(init):
    depth, shape, spec, via, poslevels = init[:5]
    S = St()
    S.depth, S.shape, S.via, S.poslevels = depth, shape, via, poslevels
    # optional 6th element: the tensor's leaf default (the fibers themselves are built with default 0);
    # with the integer default 5 the families only read and take references (the value alphabet {0,1,2} is
    # then all non-default); with the float default 0.5 the full alphabet of writes is used
    S.default = init[5] if len(init) > 5 else 0
    S.readonly = S.default != 0 and isinstance(S.default, int)
    # optional 7th element: coordinate base (coordinates base .. base+shape-1; -1 puts a negative coordinate in)
    S.base = init[6] if len(init) > 6 else 0
    ids = RANK_IDS[:depth]
    if spec is None:
        S.T = Tensor(rank_ids=list(ids), shape=list(shape), default=S.default)
    else:
        root = mktree(spec, depth, tag=0)
        if S.base:
            _shift(root, S.base)
        S.T = Tensor.fromFiber(list(ids), root, shape=list(shape), default=S.default)
    S.model = dict(content(S.T.getRoot(), S.default))
    S.handles = []
    return S


def _shift(f, base):
    f.coords[:] = [c + base for c in f.coords]
    for p in f.payloads:
        if isinstance(p, Fiber):
            _shift(p, base)


def _stored_at(T, pt):
    f = T.getRoot()
    for c in pt[:-1]:
        if c not in f.coords:
            return None
        f = f.payloads[f.coords.index(c)]
    return f.payloads[f.coords.index(pt[-1])] if pt[-1] in f.coords else None


def _fiber_at(T, path):
    f = T.getRoot()
    for c in path:
        f = f.payloads[f.coords.index(c)]
    return f


def _paths(f, prefix=()):
    out = [prefix]
    for c, p in zip(f.coords, f.payloads):
        if isinstance(p, Fiber):
            out.extend(_paths(p, prefix + (c,)))
    return out


def ops(S):
    T = S.T
    out = []
    d = S.depth
    for ln in range(1, d + 1):
        for pt in itertools.product(*[range(S.base, S.base + S.shape[i]) for i in range(ln)]):
            for mode in ("alloc", "noalloc", "dflt", "dflt0"):
                out.append(("get", pt, mode))
            if ln < d:
                out.append(("ref", pt, "none"))
                if ln == d - 1 and not S.readonly:
                    # fiber assignment through the handle of a partial point
                    for i in range(len(ASSIGN)):
                        out.append(("ref", pt, "asg%d" % i))
                    # ... and from a stored sibling fiber of the same tensor, which stays alive: later writes
                    # under either prefix must not show under the other
                    for q in _paths(T.getRoot()):
                        if len(q) == ln and q != pt:
                            out.append(("ref", pt, "row", q))
            elif S.readonly:
                out.append(("ref", pt, "none"))
            else:
                cur = S.model.get(pt, S.default)
                acts = ["none", "set1", "set0", "keep"]
                if cur < VMAX:
                    acts.append("inc")
                if 0 < cur * 2 <= VMAX:
                    acts.append("mul2")
                if cur >= 1:
                    acts.append("dec")
                for a in acts:
                    out.append(("ref", pt, a))
                # assignment from another live handle (a box on the right-hand side): the value is copied,
                # later updates of the source point do not reach this one
                for i, (q, _) in enumerate(S.handles):
                    if q != pt:
                        out.append(("ref", pt, "cp%d" % i))
    for i in range(len(S.handles)):
        for v in (0, 1, 2):
            out.append(("hwrite", i, v))
    if not S.readonly:
        for path in _paths(T.getRoot()):
            if len(path) != S.depth - 1:
                continue
            f = _fiber_at(T, path)
            for i in range(len(f.coords)):
                for j in range(len(f.coords)):
                    vi = S.model.get(path + (f.coords[i],), S.default)
                    vj = S.model.get(path + (f.coords[j],), S.default)
                    if i != j and isinstance(vi, int) and isinstance(vj, int) and 0 <= vi + vj <= VMAX:
                        # element handles obtained by position: f[i] += f[j]
                        out.append(("elemadd", path, i, j))
    for path in _paths(T.getRoot()):
        lvl = len(path)
        if lvl not in S.poslevels:
            continue
        f = _fiber_at(T, path)
        for c in range(S.base, S.base + S.shape[lvl]):
            legal = [None] + [i for i in range(len(f.coords)) if f.coords[i] <= c]
            for sp in legal:
                for kind in ("pos", "posref", "getsp", "refsp"):
                    out.append((kind, path, c, sp))
    return out


def _put(S, pt, v):
    """model write: a point holding the leaf default is not part of the content"""
    if v == S.default:
        S.model.pop(pt, None)
    else:
        S.model[pt] = v


def _snap(T):
    return (rawtree(T.getRoot()), tuple(tuple(id(f) for f in rk.fibers) for rk in T.ranks))


def _sub_model(model, prefix):
    n = len(prefix)
    return {q[n:]: v for q, v in model.items() if q[:n] == prefix}


def step(S, op):
    out = []
    T = S.T
    acc = T if S.via == "T" else T.getRoot()
    k = op[0]
    feats = {"via:" + S.via, "depth:%d" % S.depth}

    def V(fam, sym, exp, obs, *extra):
        out.append((fam, sym, feats | set(extra), exp, obs))
    try:
        if k == "get":
            _, pt, mode = op
            b = _snap(T)
            if mode == "alloc":
                r = acc.getPayload(*pt)
            elif mode == "noalloc":
                r = acc.getPayload(*pt, allocate=False)
            elif mode == "dflt0":
                r = acc.getPayload(*pt, allocate=False, default=0)      # a falsy caller-supplied default
            else:
                r = acc.getPayload(*pt, allocate=False, default=7)
            if _snap(T) != b:
                V("getPayload", "read-mutated-tree", b, _snap(T), "mode:" + mode, "len:%d" % len(pt))
            present = _stored_at(T, pt) is not None
            if len(pt) == S.depth:
                exp = S.model.get(pt, S.default)
                if mode == "alloc" or present:
                    ok = isinstance(r, Payload) and r.value == exp
                elif mode == "noalloc":
                    exp = None
                    ok = Payload.get(r) is None
                elif mode == "dflt0":
                    exp = 0
                    ok = r is not None and Payload.get(r) is not None and Payload.get(r) == 0
                else:
                    exp = 7
                    ok = Payload.get(r) == 7
                if not ok:
                    V("getPayload", "value", exp, repr(r), "mode:" + mode)
            else:
                sub = _sub_model(S.model, pt)
                if isinstance(r, Fiber):
                    if content(r, S.default) != sub:
                        V("getPayload", "prefix-content", sub, content(r, S.default), "mode:" + mode)
                    if present and r is not _stored_at(T, pt):
                        V("getPayload", "prefix-not-stored-fiber", None, None, "mode:" + mode)
                elif present or mode == "alloc":
                    V("getPayload", "prefix-not-a-fiber", sub, repr(r), "mode:" + mode)
        elif k == "ref":
            pt, act = op[1], op[2]
            r = acc.getPayloadRef(*pt)
            if _stored_at(T, pt) is not r:
                V("getPayloadRef", "not-aliased", None, repr(r), "len:%d" % len(pt))
            if act.startswith("asg"):
                g = ASSIGN[int(act[3:])]
                # f <<= g adopts g's default for the whole rank (explicit in Fiber.__ilshift__): the source
                # is built with the destination's leaf default
                r <<= Fiber(list(g[0]), list(g[1]), default=S.default)
                for q in [q for q in S.model if q[:len(pt)] == pt]:
                    del S.model[q]
                for c, v in zip(*g):
                    _put(S, pt + (c,), v)
                # boxes under the prefix were replaced: older handles to them no longer alias the tree
                S.handles = [(q, h) for q, h in S.handles if q[:len(pt)] != pt]
                if _stored_at(T, pt) is not r:
                    V("getPayloadRef", "assignment-detached-the-handle", None, repr(r), "act:assign-fiber")
            if act == "row":
                q = op[3]
                src = _stored_at(T, q)
                srcmodel = _sub_model(S.model, q)
                r <<= src
                for x in [x for x in S.model if x[:len(pt)] == pt]:
                    del S.model[x]
                for x, v in srcmodel.items():
                    _put(S, pt + x, v)
                S.handles = [(x, h) for x, h in S.handles if x[:len(pt)] != pt]
                if _stored_at(T, pt) is not r:
                    V("getPayloadRef", "assignment-detached-the-handle", None, repr(r), "act:assign-sibling")
                if _stored_at(T, q) is not src:
                    V("getPayloadRef", "assignment-replaced-the-source", None, None, "act:assign-sibling")
            if len(pt) == S.depth:
                if not isinstance(r, Payload):
                    V("getPayloadRef", "leaf-not-boxed", None, repr(r))
                elif r.value != S.model.get(pt, S.default):
                    V("getPayloadRef", "value", S.model.get(pt, S.default), r.value)
                if act == "set1":
                    r <<= 1
                    S.model[pt] = 1
                elif act == "set0":
                    r <<= 0
                    _put(S, pt, 0)
                elif act == "inc":
                    r += 1
                    _put(S, pt, S.model.get(pt, S.default) + 1)
                elif act == "mul2":
                    r *= 2
                    _put(S, pt, S.model.get(pt, S.default) * 2)
                elif act == "dec":
                    r -= 1
                    _put(S, pt, S.model.get(pt, S.default) - 1)
                elif act == "keep":
                    S.handles = (S.handles + [(pt, r)])[-2:]
                elif act.startswith("cp"):
                    q, h = S.handles[int(act[2:])]
                    r <<= h
                    _put(S, pt, S.model.get(q, S.default))
            if content(T.getRoot(), S.default) != S.model:
                V("getPayloadRef", "content", dict(S.model), content(T.getRoot(), S.default), "act:" + act)
        elif k == "hwrite":
            _, i, val = op
            pt, h = S.handles[i]
            h <<= val
            _put(S, pt, val)
            if content(T.getRoot(), S.default) != S.model:
                V("handle-write", "content", dict(S.model), content(T.getRoot(), S.default))
            got = acc.getPayload(*pt)
            if unbox(got) != val:
                V("handle-write", "later-read", val, unbox(got))
        elif k == "elemadd":
            _, path, i, j = op
            f = _fiber_at(T, path)
            ci, cj = f.coords[i], f.coords[j]
            el = f[i]
            el += f[j]
            _put(S, path + (ci,), S.model.get(path + (ci,), S.default) + S.model.get(path + (cj,), S.default))
            if content(T.getRoot(), S.default) != S.model:
                V("element-handle", "content", dict(S.model), content(T.getRoot(), S.default), "act:+=element")
            got = acc.getPayload(*(path + (ci,)))
            if unbox(got) != S.model.get(path + (ci,), S.default):
                V("element-handle", "later-read", S.model.get(path + (ci,), S.default), unbox(got), "act:+=element")
        else:
            _, path, c, sp = op
            f = _fiber_at(T, path)
            leaf = len(path) == S.depth - 1
            b = _snap(T)
            sfeat = "start_pos:%s" % ("none" if sp is None else "given")
            if k == "pos":
                r = f.getPosition(c, start_pos=sp)
                exp = f.coords.index(c) if c in f.coords else None
                if r != exp:
                    V("getPosition", "wrong-position", exp, r, sfeat)
                if _snap(T) != b:
                    V("getPosition", "read-mutated-tree", b, _snap(T), sfeat)
            elif k == "posref":
                r = f.getPositionRef(c, start_pos=sp)
                if r is None or r >= len(f.coords) or f.coords[r] != c:
                    V("getPositionRef", "wrong-position", c, r, sfeat)
                if content(T.getRoot(), S.default) != S.model:
                    V("getPositionRef", "content", dict(S.model), content(T.getRoot(), S.default), sfeat)
            elif k == "getsp":
                r = f.getPayload(c, start_pos=sp)
                if _snap(T) != b:
                    V("getPayload", "read-mutated-tree", b, _snap(T), sfeat)
                if leaf:
                    exp = S.model.get(path + (c,), S.default)
                    if not isinstance(r, Payload) or r.value != exp:
                        V("getPayload", "value", exp, repr(r), sfeat)
                else:
                    sub = _sub_model(S.model, path + (c,))
                    if not isinstance(r, Fiber) or content(r, S.default) != sub:
                        V("getPayload", "prefix-content", sub, repr(r), sfeat)
            else:
                r = f.getPayloadRef(c, start_pos=sp)
                if _stored_at(T, path + (c,)) is not r:
                    V("getPayloadRef", "not-aliased", None, repr(r), sfeat)
                if leaf and isinstance(r, Payload) and r.value != S.model.get(path + (c,), S.default):
                    V("getPayloadRef", "value", S.model.get(path + (c,), S.default), r.value, sfeat)
                if content(T.getRoot(), S.default) != S.model:
                    V("getPayloadRef", "content", dict(S.model), content(T.getRoot(), S.default), sfeat)
    except Exception as ex:
        V({"get": "getPayload", "ref": "getPayloadRef", "hwrite": "handle-write", "pos": "getPosition",
           "posref": "getPositionRef", "getsp": "getPayload", "refsp": "getPayloadRef", "elemadd": "element-handle"}[k],
          "exception:" + type(ex).__name__, None, core.tb_tail(ex), "site:" + core.exc_site(ex))
    return out


def key(S):
    T = S.T
    return (rawfull(T.getRoot()), rank_index_view(T),
            tuple(pt for pt, _ in S.handles),
            tuple(_stored_at(T, pt) is h for pt, h in S.handles),
            tuple(sorted(S.model.items())), hidden_globals(), hidden_tensor(T))


# ---------------------------------------------------------------------------
# rank-0 tensor and caller-supplied default: small E2 family

def case_rank0(case):
    seq = case
    out = []
    try:
        t = Tensor(rank_ids=[])
        model = 0
        for a in seq:
            if a == "get":
                if unbox(t.getPayload()) != model:
                    out.append(("rank0", "value", {"rank0"}, model, unbox(t.getPayload())))
            elif a == "set1":
                r = t.getPayloadRef()
                r <<= 1
                model = 1
            elif a == "inc":
                r = t.getPayloadRef()
                r += 1
                model += 1
            elif a == "set0":
                r = t.getPayloadRef()
                r <<= 0
                model = 0
            if unbox(t.getPayload()) != model:
                out.append(("rank0", "value-after-" + a, {"rank0"}, model, unbox(t.getPayload())))
                break
        core.CUR.nt("rank0")
    except Exception as ex:
        out.append(("rank0", "exception:" + type(ex).__name__, {"rank0"}, None, core.tb_tail(ex)))
    return out


def shard_rank0(acc, shard, nshards, params):
    cases = itertools.chain.from_iterable(itertools.product(("get", "set1", "inc", "set0"), repeat=n)
                                          for n in range(1, 5))
    core.drive(acc, "rank0", case_rank0, cases, shard, nshards, family="rank0-histories[len<=4]")



# ---------------------------------------------------------------------------
# points whose first coordinate is a tuple (the top rank of a flattened tensor): short histories against the map

def case_tuple_points(case):
    spec, via, writes = case
    out = []
    feats = {"tuple_coordinates", "via:" + via}
    try:
        T3 = Tensor.fromFiber(["M", "N", "K"], mktree(spec, 3, tag=0), shape=[2, 2, 2])
        T = T3.flattenRanks(depth=0, levels=1)
        acc = T if via == "T" else T.getRoot()
        model = {((p[0], p[1]), p[2]): v for p, v in content(T3.getRoot(), 0).items()}
        if {tuple(k): v for k, v in content(T.getRoot(), 0).items()} != model:
            return out          # the flattening itself is C09's subject
        tops = [(m, n) for m in range(2) for n in range(2)]

        def reads(tag):
            for t in tops:
                sub = acc.getPayload(t)
                want = {k[1]: v for k, v in model.items() if k[0] == t}
                got = content(sub, 0) if isinstance(sub, Fiber) else repr(sub)
                if got != {(k,): v for k, v in want.items()}:
                    out.append(("getPayload", "prefix-content", feats | {tag}, want, got))
                    return False
                for k in range(2):
                    r = acc.getPayload(t, k)
                    if Payload.get(r) != model.get((t, k), 0):
                        out.append(("getPayload", "value", feats | {tag}, model.get((t, k), 0), repr(r)))
                        return False
            return True
        if not reads("initial"):
            return out
        for (t, k, v) in writes:
            ref = acc.getPayloadRef(t, k)
            if Payload.get(ref) != model.get((t, k), 0):
                out.append(("getPayloadRef", "value", feats, model.get((t, k), 0), repr(ref)))
                return out
            ref <<= v
            if v == 0:
                model.pop((t, k), None)
            else:
                model[(t, k)] = v
            if {tuple(kk): vv for kk, vv in content(T.getRoot(), 0).items()} != model:
                out.append(("getPayloadRef", "content", feats, sorted(model.items()), sorted(content(T.getRoot(), 0).items())))
                return out
            if not reads("after-write"):
                return out
        core.CUR.nt("tuple_points")
    except Exception as ex:
        out.append(("tuple-points", "exception:" + type(ex).__name__, feats | {"site:" + core.exc_site(ex)}, None, core.tb_tail(ex)))
    return out


def shard_tuple_points(acc, shard, nshards, params):
    specs = [None, ((('1', '-'), None), (None, ('0', '2'))), ((('1', '2'), ('-', '1')), None)]
    tops = [(m, n) for m in range(2) for n in range(2)]
    ws = [(t, k, v) for t in tops for k in range(2) for v in (0, 5)]
    cases = [(sp, via, (w1, w2)) for sp in specs[1:] for via in ("T", "F") for w1 in ws for w2 in ws]
    cases += [(specs[1], via, ()) for via in ("T", "F")]
    core.drive(acc, "tuple_points", case_tuple_points, cases, shard, nshards, family="tuple-top-rank-points[2x2 tuples x 2, two writes]")


CASES = {"tuple_points": case_tuple_points, "history": bfs.replay_case, "rank0": case_rank0}


def run(ctx):
    q = ctx.quick
    acc = ctx.acc
    d2 = [None, (('0', '1'), None), (('-', '-'), ('1', '0')), (('1', '2'), ('0', '-'))]
    fams = []
    # depth 2, 2x2, via Tensor; sub-fiber start_pos variants only in thorough
    fams.append(("d2-2x2-viaT", [(2, (2, 2), s, "T", (0,) if q else (0, 1)) for s in d2], None))
    # depth 1, shape 3, via the root fiber, every start_pos
    d1 = [None, ('0', '1', '-'), ('-', '0', '2')]
    fams.append(("d1-3-viaF", [(1, (3,), s, "F", (0,)) for s in d1], None))
    # the same over coordinates -1, 0, 1 (a negative coordinate; a fiber holding 0..n-1 is the dense special case)
    fams.append(("d1-3-negative-base", [(1, (3,), s, "F", (0,), 0, -1) for s in (None, ('-', '1', '2'), ('1', '-', '0'))],
                 None if not q else 4))
    fams.append(("d2-2x2-negative-base", [(2, (2, 2), s, "T", (0,), 0, -1) for s in (None, (('0', '1'), None))],
                 2 if q else 3))
    # leaf default 5 over fibers built with default 0, explicitly empty rows / empty interior fibers
    d2e = [((), ('1', '0')), (('-', '-'), ('0', '-')), (('1', '-'), ('-', '-'))]
    fams.append(("d2-2x2-default5", [(2, (2, 2), s, "T", (0, 1), 5) for s in d2e], None))
    d3e = [((None, None), (('1', '-'), None)), ((('-', '-'), None), (None, None))]
    fams.append(("d3-2x2x2-default5", [(3, (2, 2, 2), s, "T", (0,), 5) for s in d3e], 3 if q else 5))
    # a float leaf default (boxes of immutable scalars are still boxes: a handle may not alias the rank's default)
    fams.append(("d1-3-default0.5", [(1, (3,), s, "T", (0,), 0.5) for s in (None, ('1', '-', '0'))], 3 if q else 4))
    fams.append(("d2-2x2-default0.5", [(2, (2, 2), s, "T", (0,), 0.5) for s in (None, (('1', '-'), None))],
                 2 if q else 3))
    fams.append(("d3-2x2x2-empty-interior", [(3, (2, 2, 2), s, "T", ()) for s in d3e], 2 if q else 3))
    if q:
        fams.append(("d2-2x2-viaF", [(2, (2, 2), s, "F", (1,)) for s in d2[:2]], 3))
        fams.append(("d3-2x2x2-viaT", [(3, (2, 2, 2), None, "T", ()),
                                       (3, (2, 2, 2), ((('0', '1'), None), None), "T", ())], 2))
    else:
        fams.append(("d2-2x2-viaF", [(2, (2, 2), s, "F", (0, 1)) for s in d2], 5))
        fams.append(("d3-2x2x2-viaT", [(3, (2, 2, 2), None, "T", (0,)),
                                       (3, (2, 2, 2), ((('0', '1'), None), None), "T", (0,)),
                                       (3, (2, 2, 2), (None, (('-', '-'), ('1', '0'))), "T", (0,))], 4))
    ctx.bounds = {}
    for name, inits, maxd in fams:
        if ctx.only and not any(name.startswith(o) for o in ctx.only):
            continue
        dl = time.time() + (120 if q else 1500)
        info = bfs.explore(acc, SPEC, inits, name, max_depth=maxd, deadline=dl)
        ctx.bounds[name] = dict(inits=len(inits), max_depth=maxd, **info)
    ctx.shards(shard_rank0, None, nshards=4)
    ctx.shards(shard_tuple_points, None)
    ctx.bounds["tuple-points"] = ("a 2x2x2 tensor flattened at the top (tuple coordinates): every pair of writes (point, 0 / 5) through "
                                  "Tensor and through the root fiber, all prefix and full reads after each, against the map")
    ctx.extra["exhaustive_note"] = ("families whose entry in bounds has fixpoint=true cover histories of every length over "
                                    "the alphabet; the others are complete up to max_depth")

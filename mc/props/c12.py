"""C12 - equality, emptiness and counting depend on content only.

E2: every ordered pair of trees of small universes (1-D fibers, depth-2 and
depth-3 trees holding explicit default-valued payloads, empty sub-fibers and
sub-fibers holding only explicit defaults) is compared with `==` / `!=`, unowned
and as tensors of equal rank ids and different declared shapes; the verdict must
be exactly "the two content maps are equal", where the content map (point ->
non-default leaf value) is computed from the generating spec alone.  An explicit
reflexivity / symmetry / transitivity pass runs over all triples of a 1-D
universe, and `isEmpty`, `countValues`, `nonEmpty`, `copy.deepcopy` are checked
on every tree.  Operands (and their tensors' rank lists) must be left unchanged.
A copies family applies every deep-copy form (copy.deepcopy, Fiber.copy with and
without preserve_owner, Tensor deepcopy, re-rooting a live root or live sub-tree
in a new tensor) to every tree, unowned and owned, also in tensors whose leaf
default differs from the default their fibers were constructed with."""
import copy
import itertools

from fibertree import Fiber, Payload, Tensor

from mc import core
from mc.core import drive
from mc.obs import rawtree, rawtensor, rank_index_view, mirror
from mc.univ import f1, t2, t3, RANK_IDS

LEVEL = "exploration"
RULE = ("pairs: every ordered pair of the stated universe (nested loops over the cell alphabet: '-' absent, 'd' "
        "explicitly stored default, digits = literal leaf values; sub-fibers absent / empty / any leaf fiber) is built "
        "afresh and compared; a pair is non-trivial when the two specs differ and either the contents are equal "
        "(different representations of one content) or they differ in exactly one point; neighbour family: every "
        "tree of the depth-3 universe against every tree one edit away (one leaf cell changed, one sub-fiber slot "
        "toggled between absent and empty); triples: every ordered triple, non-trivial when both premises of "
        "transitivity hold on non-identical specs; single: every tree, non-trivial when it stores an explicit "
        "default or an empty sub-fiber; copies: every tree x ownership variant, inside each case every copy form x "
        "every live fiber of the tree as the thing copied (fresh original per copy), non-trivial like single.  "
        "All cases are distinct by construction.")
ASSUMPTIONS = [
    "coordinates 0..N-1 per rank, integer leaf values, uniform leaf depth 1..3, ordered/unique fibers",
    "both operands of a comparison have the same depth and the same leaf default (0, or 7 with stored values {0,1}); "
    "comparing trees of different depth or different defaults is not in the statement",
    "tensor operands have equal rank ids (the statement's precondition); their declared shapes differ on purpose",
    "content is computed from the generating spec, not from the library object",
    "nonEmpty is only required to return a tree with equal content and no stored default / empty sub-fiber; "
    "whether it shares payload boxes with its operand is not part of this property",
    "!= is read as the negation of == (Fiber defines only __eq__)",
    "copies: 'a deep copy' is read as every library route that documents a deep copy of a tree: copy.deepcopy of a fiber "
    "or tensor, Fiber.copy() / copy(preserve_owner=True/False), and handing a live (owned) root or sub-fiber to "
    "Tensor.fromFiber / setRoot of another tensor (setRoot documents that an owned fiber is copied); the new tensor is "
    "given the same leaf default as the original (equal defaults are the pair families' precondition too); handing an "
    "UNOWNED fiber to fromFiber adopts it (no copy) and is not driven; the copy is only required to be another object, "
    "equal to the original, with equal content / count / emptiness / pruned copy - whether a copy made with "
    "preserve_owner=False is really owner-less, and whether copies share payload boxes, is not part of this property",
    "copies: all ranks have the default format 'C'; every sub-fiber object occurs once in its tree (a tree, not a DAG)",
]


# ---------------------------------------------------------------------------
# specs -> objects / reference content

def mk(spec, depth, dflt=0, bdflt=None):
    """Unowned tree from a spec (fresh objects on every call).  'd' stores the
    value `dflt`; the leaf fibers are constructed with default `bdflt` (= dflt
    unless the copies family asks for a tensor whose leaf default differs)."""
    cs, ps = [], []
    if depth == 1:
        for i, x in enumerate(spec):
            if x == '-':
                continue
            cs.append(i)
            ps.append(dflt if x == 'd' else int(x))
        return Fiber(cs, ps, default=dflt if bdflt is None else bdflt)
    for i, x in enumerate(spec):
        if x is None:
            continue
        cs.append(i)
        ps.append(mk(x, depth - 1, dflt, bdflt))
    return Fiber(cs, ps)


def ref_content(spec, depth, dflt=0, prefix=()):
    out = {}
    if depth == 1:
        for i, x in enumerate(spec):
            if x in '-d':
                continue
            if int(x) != dflt:
                out[prefix + (i,)] = int(x)
        return out
    for i, x in enumerate(spec):
        if x is not None:
            out.update(ref_content(x, depth - 1, dflt, prefix + (i,)))
    return out


def dims(spec, depth):
    if depth == 1:
        return [len(spec)]
    inner = None
    for x in spec:
        if x is not None:
            inner = dims(x, depth - 1)
            break
    return [len(spec)] + (inner if inner is not None else [2] * (depth - 1))


def spec_feats(spec, depth):
    fs = set()

    def rec(s, d):
        if d == 1:
            if all(x == '-' for x in s):
                fs.add("empty_subfiber" if depth > 1 else "stored_empty")
            elif all(x in '-d' for x in s):
                fs.add("default_only_subfiber" if depth > 1 else "default_only")
            if 'd' in s:
                fs.add("explicit_default")
            return
        if all(x is None for x in s) and d < depth:
            fs.add("empty_subfiber")
        for x in s:
            if x is not None:
                rec(x, d - 1)
    rec(spec, depth)
    return fs


def raw_content(f, dflt, prefix=()):
    """Content of a library object by a raw walk (used on results only)."""
    out = {}
    for c, p in zip(f.coords, f.payloads):
        if isinstance(p, Fiber):
            out.update(raw_content(p, dflt, prefix + (c,)))
        else:
            v = p.value if isinstance(p, Payload) else p
            if v != dflt:
                out[prefix + (c,)] = v
    return out


def canonical(f, dflt, depth):
    """No stored default, no empty sub-fiber, uniform depth (root may be empty)."""
    for p in f.payloads:
        if depth == 1:
            if not isinstance(p, Payload) or isinstance(p.value, (Payload, Fiber)):
                return "leaf-not-a-plain-box"
            if p.value == dflt:
                return "stored-default"
        else:
            if not isinstance(p, Fiber):
                return "leaf-above-leaf-depth"
            if len(p.coords) == 0:
                return "empty-subfiber"
            r = canonical(p, dflt, depth - 1)
            if r:
                return r
    if len(f.coords) != len(f.payloads) or any(not a < b for a, b in zip(f.coords, f.coords[1:])):
        return "coords-malformed"
    return None


def build(spec, depth, variant, dflt, shape_bump=0):
    """(object to compare, root fiber, owner tensor or None)."""
    root = mk(spec, depth, dflt)
    if variant == "u":
        return root, root, None
    shape = dims(spec, depth)
    shape[-1] += shape_bump
    t = Tensor.fromFiber(RANK_IDS[:depth], root, shape=shape, default=dflt)
    return t, t.getRoot(), t


def _snap(root, owner):
    if owner is None:
        return (rawtree(root),)
    return (rawtree(root), rawtensor(owner), rank_index_view(owner))


def _exc(out, fam, feats, ex, exp=None):
    out.append((fam, "exception:" + type(ex).__name__, feats | {"site:" + core.exc_site(ex)}, exp, core.tb_tail(ex)))


# ---------------------------------------------------------------------------
# pairs

def case_pair(case):
    depth, sa, sb, variant, dflt, extras = case
    ca, cb = ref_content(sa, depth, dflt), ref_content(sb, depth, dflt)
    exp = ca == cb
    feats = spec_feats(sa, depth) | spec_feats(sb, depth)
    feats.add("owned" if variant != "u" else "unowned")
    feats.add("depth=%d" % depth)
    if dflt != 0:
        feats.add("default=%s" % dflt)
    diff = set(ca.items()) ^ set(cb.items())
    npts = len({p for p, _ in diff})
    if exp:
        feats.add("content_equal")
    else:
        feats.add("differs_in_one_point" if npts == 1 else "differs_in_several_points")
    cur = core.CUR
    if sa != sb and (exp or npts == 1):
        cur.nt("pair")
    cur.path("pair:%s" % ("identical-spec" if sa == sb else "equal-content" if exp else
                          "one-point" if npts == 1 else "several-points"))
    out = []

    va = "u" if variant in ("u", "ut") else "t"
    vb = "u" if variant == "u" else "t"
    a, ra, ta = build(sa, depth, va, dflt, 0)
    b, rb, tb = build(sb, depth, vb, dflt, 1)
    # rank formats are not content: "tUl" declares every rank of the left tensor uncompressed, "tUU" of both
    # (the right tensor's leaf shape is one larger, so the two present different coordinate ranges)
    if variant in ("tUl", "tUU"):
        feats.add("fmt:U-left" if variant == "tUl" else "fmt:U-both")
        for r_ in ta.getRankIds():
            ta.setFormat(r_, "U")
        if variant == "tUU":
            for r_ in tb.getRankIds():
                tb.setFormat(r_, "U")
    # what is compared: the objects themselves (two tensors: Tensor.__eq__, which compares the owned roots);
    # with extras also the owned roots directly, != and the reversed order on the same objects
    pairs = [("eq", a, b)] if variant != "ut" else [("eq", ra, rb)]
    if variant in ("t", "tUl", "tUU") and extras:
        pairs.append(("root-eq", ra, rb))
    s0 = (_snap(ra, ta), _snap(rb, tb))
    for tag, x, y in pairs:
        fam = ("tensor" if isinstance(x, Tensor) else "fiber") + "=="
        try:
            res = [("eq", x == y, exp)]
            if extras:
                res.append(("ne", x != y, not exp))
                res.append(("eq-reversed", y == x, exp))
        except Exception as ex:
            _exc(out, fam, feats, ex, exp)
            continue
        for name, r, e in res:
            if not isinstance(r, bool):
                out.append((fam, name + "-not-a-bool", feats, e, repr(r)[:60]))
            elif r != e:
                out.append((fam, "%s-%s" % (name, "true-for-different-content" if r and name != "ne" else
                                            "false-for-equal-content" if name != "ne" else "inconsistent"),
                            feats, e, r))
        cur.outcome((fam,) + tuple(repr(r) for _, r, _ in res))
        s1 = (_snap(ra, ta), _snap(rb, tb))
        if s1 != s0:
            for side, u, v, t in (("left", s0[0], s1[0], ta), ("right", s0[1], s1[1], tb)):
                if u == v:
                    continue
                if u[0] != v[0]:
                    out.append((fam, "operand-modified", feats | {"which:" + side}, u[0], v[0]))
                else:
                    what = "rank-list" if u[1] == v[1] else "tensor-attrs"
                    out.append((fam, "owner-tensor-modified", feats | {"which:" + side, "modified:" + what},
                                None, [what, mirror(t)]))
            s0 = s1
    return out


def _pairs(u, depth, variants, dflt, extras):
    for v in variants:
        for sa in u:
            for sb in u:
                yield (depth, sa, sb, v, dflt, extras)


def universe(dimsp, alpha):
    """F1(n) / T2(m,n) / T3(l,m,n) over a cell alphabet; returns (specs, depth)."""
    if len(dimsp) == 1:
        return f1(dimsp[0], alpha), 1
    if len(dimsp) == 2:
        return t2(dimsp[0], dimsp[1], alpha), 2
    return t3(dimsp[0], dimsp[1], dimsp[2], alpha), 3


def uname(dimsp, alpha):
    return "%s(%s;%s)" % (("F1", "T2", "T3")[len(dimsp) - 1], ",".join(map(str, dimsp)), alpha)


def shard_pairs(acc, shard, nshards, params):
    dimsp, alpha, variants, dflt, extras, deadline = params
    u, depth = universe(dimsp, alpha)
    drive(acc, "pair", case_pair, _pairs(u, depth, variants, dflt, extras), shard, nshards,
          family="pairs_%s[%s,default=%s%s]" % (uname(dimsp, alpha), "/".join(variants), dflt,
                                                ",+ne+reversed+roots" if extras else ""), deadline=deadline)


# ---- depth-3 neighbours: pairs differing by one edit ------------------------

def neighbours(spec, depth, alpha, width):
    """Specs one edit away: a leaf cell replaced by another symbol, or a
    sub-fiber slot toggled between absent and an empty fiber."""
    out = []
    for i, x in enumerate(spec):
        if depth == 1:
            for y in alpha:
                if y != x:
                    out.append(spec[:i] + (y,) + spec[i + 1:])
            continue
        empty = ('-',) * width[depth - 2] if depth == 2 else (None,) * width[depth - 2]
        if x is None:
            out.append(spec[:i] + (empty,) + spec[i + 1:])
            continue
        if x == empty:
            out.append(spec[:i] + (None,) + spec[i + 1:])
        for y in neighbours(x, depth - 1, alpha, width):
            out.append(spec[:i] + (y,) + spec[i + 1:])
    return out


def shard_neigh_t3(acc, shard, nshards, params):
    l, m, n, alpha, variants, deadline = params
    u = t3(l, m, n, alpha)
    width = (n, m, l)       # width[d-1] = fan-out of a fiber with d levels below it (inclusive)

    def gen():
        for v in variants:
            for sa in u:
                for sb in neighbours(sa, 3, alpha, width):
                    yield (3, sa, sb, v, 0, 0)
    drive(acc, "pair", case_pair, gen(), shard, nshards,
          family="neighbours_T3(%d,%d,%d,%s)[%s]" % (l, m, n, alpha, "/".join(variants)), deadline=deadline)


# ---------------------------------------------------------------------------
# explicit equivalence pass over triples

def case_triple(case):
    sa, sb, sc = case
    a, b, c = mk(sa, 1), mk(sb, 1), mk(sc, 1)
    feats = set()
    if 'd' in sa or 'd' in sb or 'd' in sc:
        feats.add("explicit_default")
    out = []
    snap = (rawtree(a), rawtree(b), rawtree(c))
    try:
        rel = {}
        objs = {"a": a, "b": b, "c": c}
        for x in "abc":
            for y in "abc":
                rel[x + y] = bool(objs[x] == objs[y])
    except Exception as ex:
        _exc(out, "equivalence", feats, ex)
        return out
    for x in "abc":
        if not rel[x + x]:
            out.append(("equivalence", "not-reflexive", feats, True, [x, rel[x + x]]))
            break
    for x, y in ("ab", "ac", "bc"):
        if rel[x + y] != rel[y + x]:
            out.append(("equivalence", "not-symmetric", feats, None, [x + y, rel[x + y], rel[y + x]]))
            break
    for x, y, z in itertools.permutations("abc"):
        if rel[x + y] and rel[y + z] and not rel[x + z]:
            out.append(("equivalence", "not-transitive", feats, True, [x + y, y + z, x + z]))
            break
    if (rawtree(a), rawtree(b), rawtree(c)) != snap:
        out.append(("equivalence", "operand-modified", feats, snap, (rawtree(a), rawtree(b), rawtree(c))))
    if rel["ab"] and rel["bc"] and not (sa == sb == sc):
        core.CUR.nt("triple")
    core.CUR.path("triple:%d-of-3-pairs-equal" % (rel["ab"] + rel["bc"] + rel["ac"]))
    core.CUR.outcome(("triple", tuple(sorted(rel.items()))))
    return out


def shard_triple(acc, shard, nshards, params):
    n, alpha = params
    u = f1(n, alpha)
    drive(acc, "triple", case_triple, itertools.product(u, repeat=3), shard, nshards,
          family="triple_F1(%d,%s)" % (n, alpha))


# ---------------------------------------------------------------------------
# single trees: isEmpty / countValues / nonEmpty / deepcopy / reflexivity

def case_single(case):
    depth, spec, variant, dflt = case
    C = ref_content(spec, depth, dflt)
    feats = spec_feats(spec, depth)
    feats.add("owned" if variant != "u" else "unowned")
    feats.add("depth=%d" % depth)
    if dflt != 0:
        feats.add("default=%s" % dflt)
    if not C:
        feats.add("content_empty")
    obj, root, owner = build(spec, depth, variant, dflt)
    s0 = _snap(root, owner)
    out = []
    cur = core.CUR
    if feats & {"explicit_default", "empty_subfiber", "default_only_subfiber", "default_only"}:
        cur.nt("single")
    cur.path("single:%s" % ("no-content" if not C else "content"))

    def step(fam, fn, check):
        try:
            r = fn()
        except Exception as ex:
            _exc(out, fam, feats, ex)
            return
        for sym, exp, got in check(r):
            out.append((fam, sym, feats, exp, got))

    step("isEmpty", lambda: root.isEmpty(),
         lambda r: [] if r is (not C) else [("value", not C, repr(r))])
    step("Payload.isEmpty", lambda: Payload.isEmpty(root),
         lambda r: [] if r is (not C) else [("value", not C, repr(r))])
    step("countValues", lambda: root.countValues(),
         lambda r: [] if type(r) is int and r == len(C) else [("value", len(C), repr(r))])
    if owner is not None:
        step("Tensor.countValues", lambda: owner.countValues(),
             lambda r: [] if type(r) is int and r == len(C) else [("value", len(C), repr(r))])

    def chk_ne(ne):
        res = []
        if not isinstance(ne, Fiber):
            return [("not-a-fiber", "Fiber", type(ne).__name__)]
        got = raw_content(ne, dflt)
        if got != C:
            res.append(("content", C, got))
        why = canonical(ne, dflt, depth)
        if why:
            res.append(("not-pruned", None, [why, rawtree(ne)]))
        for name, r in (("result==operand", ne == root), ("operand==result", root == ne)):
            if r is not True:
                res.append((name, True, repr(r)))
        return res
    step("nonEmpty", lambda: root.nonEmpty(), chk_ne)

    def chk_copy(dc):
        res = []
        if dc is obj:
            return [("same-object", None, None)]
        droot = dc.getRoot() if isinstance(dc, Tensor) else dc
        got = raw_content(droot, dflt)
        if got != C:
            res.append(("content", C, got))
        for name, r in (("copy==original", dc == obj), ("original==copy", obj == dc)):
            if r is not True:
                res.append((name, True, repr(r)))
        return res
    step("deepcopy", lambda: copy.deepcopy(obj), chk_copy)
    step("reflexive", lambda: obj == obj, lambda r: [] if r is True else [("value", True, repr(r))])

    s1 = _snap(root, owner)
    if s1 != s0:
        if s1[0] != s0[0]:
            out.append(("single", "operand-modified", feats, s0[0], s1[0]))
        else:
            what = "rank-list" if s0[1] == s1[1] else "tensor-attrs"
            out.append(("single", "owner-tensor-modified", feats | {"modified:" + what}, None, [what, mirror(owner)]))
    cur.outcome(("single", len(C), not C))
    return out


def shard_single(acc, shard, nshards, params):
    dimsp, alpha, variants, dflt = params
    u, depth = universe(dimsp, alpha)
    cases = ((depth, s, v, dflt) for v in variants for s in u)
    drive(acc, "single", case_single, cases, shard, nshards,
          family="single_%s[%s,default=%s]" % (uname(dimsp, alpha), "/".join(variants), dflt))


# ---------------------------------------------------------------------------
# the boxed-payload emptiness predicate on its own

def case_payload_empty(case):
    v, d, boxed = case
    p = Payload(v) if boxed else v
    exp = v == d
    try:
        r = Payload.isEmpty(p, default=d) if d is not None else Payload.isEmpty(p)
    except Exception as ex:
        out = []
        _exc(out, "Payload.isEmpty", set(), ex, exp)
        return out
    if d is None:
        exp = v == 0
    core.CUR.nt("payload_empty")
    if r is not exp:
        return [("Payload.isEmpty", "value", {"boxed" if boxed else "plain", "default=%r" % (d,)}, exp, repr(r))]
    return []


def shard_payload_empty(acc, shard, nshards, params):
    vals = [-1, 0, 1, 2, 7, 0.0, 0.5]
    cases = [(v, d, bx) for v in vals for d in [None] + vals for bx in (False, True)]
    drive(acc, "payload_empty", case_payload_empty, cases, shard, nshards, family="Payload.isEmpty")


def case_edited(case):
    """A tensor whose tree was completed after construction through public fiber
    mutators that do not go through the tensor (append / position assignment /
    extend of a sub-fiber): counting, emptiness and equality still depend on the
    content only."""
    spec, how, dflt = case
    depth = 2
    out = []
    feats = spec_feats(spec, depth) | {"edited:" + how}
    stored_top = [i for i, x in enumerate(spec) if x is not None]
    last = stored_top[-1]
    partial = tuple(x if i != last else None for i, x in enumerate(spec))
    exp = ref_content(spec, depth, dflt)
    try:
        shape = [len(spec), len(spec[last])]
        t = Tensor.fromFiber(RANK_IDS[:depth], mk(partial, depth, dflt), shape=shape, default=dflt)
        root = t.getRoot()
        sub = mk(spec[last], 1, dflt)
        if how == "append":
            root.append(last, sub)
        elif how == "extend":
            root.extend(Fiber([last], [sub]))
        else:   # replace: append an empty sub-fiber, then assign the real one by position
            root.append(last, Fiber([], [], default=dflt))
            root[len(root.coords) - 1] = sub
        fresh = Tensor.fromFiber(RANK_IDS[:depth], mk(spec, depth, dflt), shape=shape, default=dflt)
        n = len(exp)
        for fam, got in (("Tensor.countValues", t.countValues()), ("Fiber.countValues", root.countValues())):
            if got != n:
                out.append((fam, "value", feats, n, got))
        if root.isEmpty() != (n == 0):
            out.append(("isEmpty", "value", feats, n == 0, root.isEmpty()))
        for fam, a, b in (("tensor==", t, fresh), ("tensor==", fresh, t), ("fiber==", root, fresh.getRoot())):
            if not (a == b):
                out.append((fam, "eq-false-for-equal-content", feats, True, False))
        if fresh.countValues() != t.countValues():
            out.append(("Tensor.countValues", "equal-tensors-count-differently", feats, fresh.countValues(), t.countValues()))
        if n >= 2:
            core.CUR.nt("edited")
    except Exception as ex:
        _exc(out, "edited", feats, ex)
    return out


def case_owner_default(case):
    """The owning rank's leaf default (7) differs from the default the fibers were
    built with (0): emptiness, counting, pruning and equality follow the rank's.
    Cells: '-' absent, '0' a stored 0 (a value here), '7' a stored 7 (an explicit
    default here), '1' a value."""
    spec, = case
    depth = 2
    out = []
    feats = {"rank_default_differs_from_fiber_default"}

    def tree():
        cs, ps = [], []
        for i, row in enumerate(spec):
            if row is None:
                continue
            rc = [j for j, x in enumerate(row) if x != '-']
            cs.append(i)
            ps.append(Fiber(rc, [int(row[j]) for j in rc]))       # the fibers' own default is 0
        return Fiber(cs, ps)
    exp = {}
    for i, row in enumerate(spec):
        if row is None:
            continue
        for j, x in enumerate(row):
            if x not in '-7':
                exp[(i, j)] = int(x)
    if any(row is not None and '7' in row for row in spec):
        feats.add("explicit_default")
    try:
        t = Tensor.fromFiber(RANK_IDS[:depth], tree(), shape=[len(spec), 2], default=7)
        root = t.getRoot()
        if raw_content(root, 7) != exp:
            return out        # harness sanity: not the library's business
        n = len(exp)
        for fam, got in (("Tensor.countValues", t.countValues()), ("Fiber.countValues", root.countValues())):
            if got != n:
                out.append((fam, "value", feats, n, got))
        if root.isEmpty() != (n == 0):
            out.append(("isEmpty", "value", feats, n == 0, root.isEmpty()))
        ne = root.nonEmpty()
        if raw_content(ne, 7) != exp:
            out.append(("nonEmpty", "content", feats, exp, raw_content(ne, 7)))
        else:
            for c, p in zip(ne.coords, ne.payloads):
                if not p.coords or any(q.value == 7 for q in p.payloads):
                    out.append(("nonEmpty", "not-pruned", feats, exp, rawtree(ne)))
                    break
            if not (ne == root) or not (root == ne):
                out.append(("nonEmpty", "pruned-copy-not-equal", feats, True, False))
            if ne.countValues() != n:
                out.append(("nonEmpty", "pruned-copy-count", feats, n, ne.countValues()))
        dc = copy.deepcopy(t)
        if not (dc == t) or not (t == dc):
            out.append(("deepcopy", "copy-not-equal", feats, True, False))
        if n >= 2:
            core.CUR.nt("owner_default")
    except Exception as ex:
        _exc(out, "owner_default", feats, ex)
    return out


def shard_owner_default(acc, shard, nshards, params):
    rows = [None] + list(itertools.product("-071", repeat=2))
    drive(acc, "owner_default", case_owner_default, ((sp,) for sp in itertools.product(rows, repeat=2)),
          shard, nshards, family="owner-default-differs[T2(2,2,{-,0,7,1}), rank default 7, fibers built with default 0]")


def case_observe_mutate(case):
    """Observe a tree (isEmpty / == / countValues / nonEmpty), change one stored
    leaf in place through its payload box, observe again: the second answers
    follow the new content (no stale answer is remembered)."""
    spec, depth, which, newval = case
    out = []
    feats = spec_feats(spec, depth) | {"observe-mutate-observe"}
    try:
        t = Tensor.fromFiber(RANK_IDS[:depth], mk(spec, depth, 0), default=0)
        root = t.getRoot()
        boxes = []

        def rec(f, pt):
            for c, p in zip(f.coords, f.payloads):
                if isinstance(p, Fiber):
                    rec(p, pt + (c,))
                else:
                    boxes.append((pt + (c,), p))
        rec(root, ())
        if which >= len(boxes):
            return out
        twin = copy.deepcopy(t)
        # first observation
        root.isEmpty(), t.countValues(), root.nonEmpty(), (t == twin)
        for _, f in _all_fibers(root):
            f.isEmpty()
        pt, box = boxes[which]
        box <<= newval
        exp = raw_content(root, 0)
        n = len(exp)
        if root.isEmpty() != (n == 0):
            out.append(("isEmpty", "stale-after-in-place-update", feats, n == 0, root.isEmpty()))
        if t.countValues() != n:
            out.append(("Tensor.countValues", "stale-after-in-place-update", feats, n, t.countValues()))
        ne = root.nonEmpty()
        if raw_content(ne, 0) != exp:
            out.append(("nonEmpty", "stale-after-in-place-update", feats, exp, raw_content(ne, 0)))
        same = raw_content(twin.getRoot(), 0) == exp
        if (t == twin) != same or (twin == t) != same:
            out.append(("tensor==", "stale-after-in-place-update", feats, same, (t == twin)))
        core.CUR.nt("observe_mutate")
    except Exception as ex:
        _exc(out, "observe_mutate", feats, ex)
    return out



def case_observe_setdefault(case):
    """Observe a tensor, change its leaf default (Tensor.setDefault), observe again: emptiness, counts, the pruned copy
    and equality follow the new default (a stored leaf equal to it is now empty, a stored 0 is a value)."""
    spec, depth, newd = case
    out = []
    feats = spec_feats(spec, depth) | {"observe-setDefault-observe", "new_default:%s" % newd}
    try:
        t = Tensor.fromFiber(RANK_IDS[:depth], mk(spec, depth, 0), default=0)
        root = t.getRoot()
        twin = copy.deepcopy(t)
        root.isEmpty(), t.countValues(), root.nonEmpty(), (t == twin), t.getDefault()
        for _, f in _all_fibers(root):
            f.isEmpty()
            f.getDefault()
        t.setDefault(newd)
        exp = raw_content(root, newd)
        n = len(exp)
        if root.isEmpty() != (n == 0):
            out.append(("isEmpty", "stale-after-setDefault", feats, n == 0, root.isEmpty()))
        if t.countValues() != n:
            out.append(("Tensor.countValues", "stale-after-setDefault", feats, n, t.countValues()))
        if root.countValues() != n:
            out.append(("Fiber.countValues", "stale-after-setDefault", feats, n, root.countValues()))
        ne = root.nonEmpty()
        if raw_content(ne, newd) != exp:
            out.append(("nonEmpty", "stale-after-setDefault", feats, exp, raw_content(ne, newd)))
        fresh = Tensor.fromFiber(RANK_IDS[:depth], mk(spec, depth, 0), default=newd)
        if not (t == fresh) or not (fresh == t):
            out.append(("tensor==", "stale-after-setDefault", feats, True, (t == fresh, fresh == t)))
        core.CUR.nt("observe_setdefault")
    except Exception as ex:
        _exc(out, "observe_setdefault", feats, ex)
    return out


def _all_fibers(f, prefix=()):
    out = [(prefix, f)]
    for c, p in zip(f.coords, f.payloads):
        if isinstance(p, Fiber):
            out.extend(_all_fibers(p, prefix + (c,)))
    return out


def shard_observe_mutate(acc, shard, nshards, params):
    specs2, _ = universe((2, 2), A1)
    specs1, _ = universe((3,), A12)

    def gen():
        for spec in specs1:
            for w in range(3):
                for v in (0, 5):
                    yield (spec, 1, w, v)
        for spec in specs2:
            for w in range(4):
                for v in (0, 5):
                    yield (spec, 2, w, v)
    drive(acc, "observe_mutate", case_observe_mutate, gen(), shard, nshards,
          family="observe-mutate-observe[F1(3), T2(2,2)]")
    sd = [(spec, 1, d) for spec in specs1 for d in (1, 7)] + [(spec, 2, d) for spec in specs2 for d in (1, 7)]
    drive(acc, "observe_setdefault", case_observe_setdefault, sd, shard, nshards,
          family="observe-setDefault-observe[F1(3), T2(2,2)]")


def shard_edited(acc, shard, nshards, params):
    alpha, dflt = params

    def gen():
        for spec in universe((2, 2), alpha)[0]:
            if not any(x is not None for x in spec):
                continue
            for how in ("append", "extend", "replace"):
                if how == "extend":
                    last = [i for i, x in enumerate(spec) if x is not None][-1]
                    # extend() documents that an empty fiber is a no-op
                    if not ref_content((spec[last],), 2, dflt):
                        continue
                yield (spec, how, dflt)
    drive(acc, "edited", case_edited, gen(), shard, nshards, family="edited-after-construction[T2(2,2,%s),default=%s]" % (alpha, dflt))


# ---------------------------------------------------------------------------
# copies: every way of deep-copying a tree / a live part of a tree / a tensor

FIBER_COPIES = ("deepcopy", "copy()", "copy(preserve_owner=True)", "copy(preserve_owner=False)")
TENSOR_COPIES = ("Tensor-deepcopy", "fromFiber(live-root)", "fromFiber(live-root,shape+1)", "setRoot(live-root)")


def _sub_content(C, path):
    n = len(path)
    return {pt[n:]: v for pt, v in C.items() if pt[:n] == path}


def _state(root, owner):
    """Everything that decides what the original holds: raw tree, per-fiber
    owner identity and effective default, tensor attributes and rank lists."""
    per = []
    for path, f in _all_fibers(root):
        try:
            d = f.getDefault()
            d = "Fiber" if isinstance(d, Fiber) or d is Fiber else (d.value if isinstance(d, Payload) else d)
        except Exception as ex:       # reported through the snapshot difference
            d = "exception:" + type(ex).__name__
        per.append((path, id(f), id(f.getOwner()) if f.getOwner() is not None else None, repr(d)))
    return _snap(root, owner) + (tuple(per), mirror(owner) if owner is not None else None)


def case_copies(case):
    """A deep copy equals its original.  For the tree of the spec (unowned, or
    root of a tensor whose leaf default is `dflt` while the leaf fibers were
    constructed with `bdflt`) every copy form is applied to a freshly built
    original: to the root and to every live sub-fiber (copy.deepcopy, copy(),
    copy(preserve_owner=True/False), Tensor.fromFiber of the live part) and to
    the tensor (deepcopy, fromFiber / setRoot of its live root).  Each copy is
    a different object, == the original in both directions and == an
    independent unowned build of the same spec, holds exactly the spec's
    content (raw walk, countValues, isEmpty, nonEmpty; also per sub-fiber), and
    the original is unchanged afterwards."""
    depth, spec, variant, dflt, bdflt = case
    C = ref_content(spec, depth, dflt)
    base = spec_feats(spec, depth)
    base.add("owned" if variant != "u" else "unowned")
    base.add("depth=%d" % depth)
    if dflt != 0:
        base.add("default=%s" % dflt)
    if bdflt != dflt:
        base.add("rank_default_differs_from_fiber_default")
    cur = core.CUR
    if base & {"explicit_default", "empty_subfiber", "default_only_subfiber", "default_only"}:
        cur.nt("copies")
    out = []
    ids = RANK_IDS[:depth]
    shape = dims(spec, depth)

    def fresh():
        root = mk(spec, depth, dflt, bdflt)
        if variant == "u":
            return root, None
        t = Tensor.fromFiber(ids, root, shape=list(shape), default=dflt)
        return t.getRoot(), t

    def observe(fam, feats, c, x, Cx, dx, path):
        """c: copied fiber, x: the live original part, Cx/dx: its expected content / depth."""
        res = []
        if not isinstance(c, Fiber):
            return [(fam, "not-a-fiber", feats, "Fiber", type(c).__name__)]
        if c is x:
            return [(fam, "same-object", feats, None, None)]
        twin = sub_of(mk(spec, depth, dflt), path)
        for name, a, b in (("copy==original", c, x), ("original==copy", x, c),
                           ("copy==independent-build", c, twin), ("independent-build==copy", twin, c)):
            r = a == b
            if r is not True:
                res.append((fam, name, feats, True, repr(r)))
        got = raw_content(c, dflt)
        if got != Cx:
            res.append((fam, "content", feats, Cx, got))
        for who, o in (("copy", c), ("original", x)):
            n = o.countValues()
            if type(n) is not int or n != len(Cx):
                res.append((fam, who + "-countValues", feats, len(Cx), repr(n)))
            e = o.isEmpty()
            if e is not (not Cx):
                res.append((fam, who + "-isEmpty", feats, not Cx, repr(e)))
        e = Payload.isEmpty(c)
        if e is not (not Cx):
            res.append((fam, "copy-Payload.isEmpty", feats, not Cx, repr(e)))
        ne = c.nonEmpty()
        if not isinstance(ne, Fiber):
            res.append((fam, "copy-nonEmpty-not-a-fiber", feats, "Fiber", type(ne).__name__))
        else:
            gne = raw_content(ne, dflt)
            why = canonical(ne, dflt, dx)
            if gne != Cx:
                res.append((fam, "copy-nonEmpty-content", feats, Cx, gne))
            elif why:
                res.append((fam, "copy-nonEmpty-not-pruned", feats, None, [why, rawtree(ne)]))
            if ne.countValues() != len(Cx):
                res.append((fam, "copy-nonEmpty-countValues", feats, len(Cx), ne.countValues()))
            for name, a, b in (("pruned-copy==original", ne, x), ("original==pruned-copy", x, ne)):
                r = a == b
                if r is not True:
                    res.append((fam, name, feats, True, repr(r)))
        # the same, part by part (only when the stored structure was copied faithfully)
        if rawtree(c) == rawtree(x):
            for p, sc in _all_fibers(c)[1:]:
                sx = sub_of(x, p)
                Cp = _sub_content(Cx, p)
                bad = None
                if (sc == sx) is not True or (sx == sc) is not True:
                    bad = ("sub-fiber==", True, False)
                elif sc.countValues() != len(Cp):
                    bad = ("sub-fiber-countValues", len(Cp), sc.countValues())
                elif sc.isEmpty() is not (not Cp):
                    bad = ("sub-fiber-isEmpty", not Cp, sc.isEmpty())
                if bad:
                    res.append((fam, bad[0], feats | {"sub_depth=%d" % (dx - len(p))}, bad[1], [list(p), bad[2]]))
                    break
        else:
            res.append((fam, "stored-structure", feats, rawtree(x), rawtree(c)))
        return res

    def unchanged(fam, feats, s0, root, owner):
        s1 = _state(root, owner)
        if s1 == s0:
            return
        if s1[0] != s0[0]:
            out.append((fam, "original-modified", feats | {"modified:tree"}, s0[0], s1[0]))
        elif owner is not None and s1[1] != s0[1]:
            out.append((fam, "original-modified", feats | {"modified:tensor-attrs"}, s0[1], s1[1]))
        elif owner is not None and (s1[2] != s0[2] or s1[-1] != s0[-1]):
            out.append((fam, "original-modified", feats | {"modified:rank-lists"}, [s0[2], s0[-1]], [s1[2], s1[-1]]))
        else:
            diff = [(a, b) for a, b in zip(s0[-2], s1[-2]) if a != b]
            out.append((fam, "original-modified", feats | {"modified:owner-or-default"}, None,
                        [(a[0], a[2:], b[2:]) for a, b in diff][:3]))

    # --- copies of the root and of every live sub-fiber
    npaths = len(_all_fibers(mk(spec, depth, dflt)))
    for how in FIBER_COPIES + ("fromFiber(live-part)",):
        if how == "fromFiber(live-part)" and variant == "u":
            continue        # an unowned fiber is adopted, not copied
        for k in range(npaths):
            if k and how == "copy(preserve_owner=True)":
                break       # the explicit spelling of copy()'s default: root targets only
            root, owner = fresh()
            path, x = _all_fibers(root)[k]
            dx = depth - len(path)
            Cx = _sub_content(C, path)
            feats = base | {"copy:" + how, "target:" + ("root" if not path else "sub-fiber")}
            fam = "copies:" + how
            s0 = _state(root, owner)
            try:
                if how == "deepcopy":
                    c = copy.deepcopy(x)
                elif how == "copy()":
                    c = x.copy()
                elif how == "copy(preserve_owner=True)":
                    c = x.copy(preserve_owner=True)
                elif how == "copy(preserve_owner=False)":
                    c = x.copy(preserve_owner=False)
                else:
                    tc = Tensor.fromFiber(ids[len(path):], x, default=dflt)
                    c = tc.getRoot()
                out.extend(observe(fam, feats, c, x, Cx, dx, path))
            except Exception as ex:
                _exc(out, fam, feats, ex)
            unchanged(fam, feats, s0, root, owner)
            cur.path("copies:%s:%s" % (how, "root" if not path else "sub"))

    # --- copies of the tensor
    if variant != "u":
        for how in TENSOR_COPIES:
            root, t = fresh()
            feats = base | {"copy:" + how, "target:tensor"}
            fam = "copies:" + how
            s0 = _state(root, t)
            try:
                if how == "Tensor-deepcopy":
                    tc = copy.deepcopy(t)
                elif how == "fromFiber(live-root)":
                    tc = Tensor.fromFiber(ids, t.getRoot(), default=dflt)
                elif how == "fromFiber(live-root,shape+1)":
                    tc = Tensor.fromFiber(ids, t.getRoot(), shape=[n + 1 for n in shape], default=dflt)
                else:
                    tc = Tensor(rank_ids=ids, default=dflt)
                    tc.setRoot(t.getRoot())
                if not isinstance(tc, Tensor) or tc is t:
                    out.append((fam, "not-a-new-tensor", feats, None, type(tc).__name__))
                else:
                    for name, a, b in (("copy==original", tc, t), ("original==copy", t, tc)):
                        r = a == b
                        if r is not True:
                            out.append((fam, "tensor-" + name, feats, True, repr(r)))
                    for who, o in (("copy", tc), ("original", t)):
                        n = o.countValues()
                        if type(n) is not int or n != len(C):
                            out.append((fam, who + "-Tensor.countValues", feats, len(C), repr(n)))
                    out.extend(observe(fam, feats, tc.getRoot(), t.getRoot(), C, depth, ()))
            except Exception as ex:
                _exc(out, fam, feats, ex)
            unchanged(fam, feats, s0, root, t)
            cur.path("copies:%s" % how)
    cur.outcome(("copies", len(C), len(out)))
    return out


def sub_of(f, path):
    for c in path:
        f = f.payloads[f.coords.index(c)]
    return f


def shard_copies(acc, shard, nshards, params):
    dimsp, alpha, variants, dflt, bdflt, deadline = params
    u, depth = universe(dimsp, alpha)
    cases = ((depth, s, v, dflt, bdflt) for v in variants for s in u)
    drive(acc, "copies", case_copies, cases, shard, nshards,
          family="copies_%s[%s,default=%s,fibers built with default %s]" % (uname(dimsp, alpha), "/".join(variants), dflt, bdflt),
          deadline=deadline)



# ---------------------------------------------------------------------------
# two trees with DIFFERENT leaf defaults: each side's content is judged against its own default

DD_VALUES = (None, 0, 7, 4)          # None = absent; 0 and 7 are the two defaults in play, 4 is a value for both


def _dd_build(cells, d, depth, owned):
    def leaf(row):
        cs = [i for i, v in enumerate(row) if v is not None]
        return Fiber(cs, [row[i] for i in cs], default=d)
    if depth == 1:
        f = leaf(cells)
        ids_ = ["K"]
    else:
        cs = [i for i, row in enumerate(cells) if row is not None]
        f = Fiber(cs, [leaf(cells[i]) for i in cs])
        ids_ = ["M", "K"]
    if owned:
        return Tensor.fromFiber(ids_, f, default=d)
    return f


def _dd_content(cells, d, depth):
    if depth == 1:
        return {(i,): v for i, v in enumerate(cells) if v is not None and v != d}
    return {(m, i): v for m, row in enumerate(cells) if row is not None for i, v in enumerate(row) if v is not None and v != d}


def case_diff_defaults(case):
    a, b, d1, d2, depth, owned = case
    feats = {"different_leaf_defaults" if d1 != d2 else "same_leaf_default", "depth:%d" % depth, "owned" if owned else "unowned"}
    exp = _dd_content(a, d1, depth) == _dd_content(b, d2, depth)
    out = []
    try:
        x, y = _dd_build(a, d1, depth, owned), _dd_build(b, d2, depth, owned)
        r1, r2 = (x == y), (y == x)
        if r1 != exp:
            out.append(("eq", "verdict", feats | {"expected:" + str(exp)}, exp, r1))
        elif r2 != r1:
            out.append(("eq", "asymmetric", feats, r1, r2))
        if (x != y) != (not r1):
            out.append(("ne", "not-the-negation-of-eq", feats, not r1, x != y))
        if exp:
            core.CUR.nt("diff_defaults")
    except Exception as ex:
        _exc(out, "eq", feats, ex, exp)
    return out


def shard_diff_defaults(acc, shard, nshards, params):
    quick, = params
    rows = list(itertools.product(DD_VALUES, repeat=2))

    def gen():
        for d1, d2 in ((0, 7), (7, 0)):
            for owned in (False, True):
                u1 = list(itertools.product(DD_VALUES, repeat=3))
                for a in u1:
                    for b in u1:
                        yield (a, b, d1, d2, 1, owned)
                u2 = [(r1, r2) for r1 in [None] + rows for r2 in [None] + rows[:8 if quick else 16]]
                for a in u2:
                    for b in u2:
                        yield (a, b, d1, d2, 2, owned)
    core.drive(acc, "diff_defaults", case_diff_defaults, gen(), shard, nshards,
               family="pairs-with-different-leaf-defaults[1-D over 3, 2x2]")


CASES = {"observe_setdefault": case_observe_setdefault, "diff_defaults": case_diff_defaults, "pair": case_pair, "triple": case_triple, "single": case_single, "payload_empty": case_payload_empty,
         "edited": case_edited, "owner_default": case_owner_default, "observe_mutate": case_observe_mutate,
         "copies": case_copies}

A12 = "-d12"     # absent / explicit default / 1 / 2
A1 = "-d1"
A7 = "-d01"      # with leaf default 7: 0 and 1 are both values
A70 = "-d0"      # with leaf default 7: the only value is a stored 0
A07 = "-d71"     # tensor default 0 over leaf fibers constructed with default 7: a stored 7 is a value
U, T, UT, ALLV = ("u",), ("t",), ("u", "t"), ("u", "t", "ut")


def run(ctx):
    import time
    q = ctx.quick
    # (dims, alphabet, variants, leaf default, extras)
    singles = [((3,), "-01", ("t",), None), ((2, 2), "-01", ("t",), None),      # leaf default None: a stored 0 is a value
               ((4,), A12, UT, 0), ((2, 2), A12, UT, 0), ((3,), A7, UT, 7), ((2, 2), A7, UT, 7),
               ((2, 2, 2), A1, U if q else UT, 0)]
    pairs = [((3,), "-01", ("t",), None, 1), ((2, 2), "-01", ("t",), None, 0),
             ((3,), A12, ("tUl", "tUU"), 0, 1), ((2, 2), A1, ("tUl", "tUU"), 0, 1), ((3,), A7, ("tUU",), 7, 1),
             ((3,), A7, ALLV, 7, 1), ((3,), A12, ALLV, 0, 1), ((4,), A12, UT, 0, 1),
             ((2, 2), A70, UT, 7, 1), ((2, 2), A1, ALLV, 0, 1), ((2, 2), A12, UT, 0, 0),
             ((2, 2, 1), A1, UT if q else ALLV, 0, 0)]
    capped = [] if q else [((2, 2), A12, ("ut",), 0, 1, 50), ((2, 2, 1), A12, UT, 0, 0, 90),
                           ((5,), A12, U, 0, 0, 60), ((2, 3), A1, U, 0, 0, 60), ((3, 2), A1, U, 0, 0, 90)]
    neigh = (2, 2, 2, A1, U if q else UT)
    trip = (3, A1 if q else A12)
    # (dims, alphabet, variants, tensor's leaf default, default the leaf fibers are constructed with, time cap)
    copies = [((3,), A12, UT, 0, 0, None), ((3,), A7, UT, 7, 7, None),
              ((2, 2), A12, UT, 0, 0, None), ((2, 2), A7, UT, 7, 7, None),
              ((2, 2), A7, T, 7, 0, None), ((2, 2), A07, T, 0, 7, None),
              ((2, 2, 1), A1, UT, 0, 0, None), ((2, 2, 1), A70, T, 7, 7, None), ((2, 2, 1), A70, T, 7, 0, None)]
    if not q:
        copies += [((4,), A12, UT, 0, 0, None), ((2, 3), A1, UT, 0, 0, 60), ((3, 2), A1, UT, 0, 0, 90),
                   ((2, 2, 1), A12, UT, 0, 0, 60), ((2, 2, 2), A1, T, 0, 0, 60), ((2, 2, 2), A70, T, 7, 0, 45)]
    ctx.bounds = {
        "cell alphabet": "'-' absent, 'd' explicitly stored default, digits literal values; a sub-fiber slot is absent "
                         "or holds any member of the next level's universe (so empty and default-only sub-fibers occur)",
        "variants": "u = unowned fibers; t = two tensors with equal rank ids, declared shapes differing in the last rank; "
                    "ut = unowned fiber against the root of a tensor; extras = also !=, reversed order, owned roots",
        "pairs": ["all ordered pairs of %s variants=%s default=%s extras=%d" % (uname(d, a), "/".join(v), df, ex)
                  for d, a, v, df, ex in pairs] +
                 ["all ordered pairs of %s variants=%s default=%s extras=%d (time cap %ds)" % (uname(d, a), "/".join(v), df, ex, cap)
                  for d, a, v, df, ex, cap in capped],
        "neighbours": "every tree of T3(2,2,2;-d1) (10201) against each tree one edit away, variants=%s" % "/".join(neigh[4]),
        "triples": "all ordered triples of F1(3;%s): reflexive, symmetric, transitive on the library's own verdicts" % trip[1],
        "single": ["every tree of %s variants=%s default=%s: isEmpty, Payload.isEmpty, countValues, nonEmpty, deepcopy, x == x"
                   % (uname(d, a), "/".join(v), df) for d, a, v, df in singles],
        "copies": ["every tree of %s variants=%s leaf default=%s (leaf fibers constructed with default %d)%s: each of "
                   "copy.deepcopy / copy() / copy(preserve_owner=False) applied to the root and to every live sub-fiber of a "
                   "freshly built original (copy(preserve_owner=True): root only), Tensor.fromFiber of every live part of a tensor, "
                   "Tensor deepcopy, Tensor.fromFiber(ids, live root) with and without a larger shape, setRoot(live root) "
                   "on a new tensor; each copy is another object, == original and == an independent unowned build (both "
                   "orders), same raw content / countValues / isEmpty / Payload.isEmpty / nonEmpty (pruned, equal) also "
                   "per sub-fiber; original (tree, owners, defaults, tensor attributes, rank lists) unchanged"
                   % (uname(d, a), "/".join(v), df, bdf, " (time cap %ds)" % cap if cap else "")
                   for d, a, v, df, bdf, cap in copies],
        "Payload.isEmpty": "values and defaults from {-1,0,1,2,7,0.0,0.5}, plain and boxed, with and without default=",
    }
    only = getattr(ctx, "only", None)

    def want(name):
        return not only or any(name.startswith(p) for p in only)
    if want("payload"):
        ctx.shards(shard_payload_empty, None, nshards=1, serial=True)
    if not getattr(ctx, "only", None) or "edited" in ctx.only:
        ctx.shards(shard_edited, (A12, 0))
        ctx.shards(shard_owner_default, None)
        ctx.shards(shard_diff_defaults, (q,))
        ctx.bounds["different-defaults"] = ("all ordered pairs of 1-D fibers over 3 coordinates and of 2x2 trees with cells {absent, 0, 7, 4}, "
                                            "the left tree built with leaf default 0 and the right with 7 (and vice versa), unowned and as "
                                            "tensors: == (both orders) and != against equality of the contents, each judged by its own default")
        ctx.shards(shard_observe_mutate, None)
        ctx.shards(shard_edited, (A7, 7))
    for d, a, v, df, bdf, cap in copies:
        if want("copies"):
            ctx.shards(shard_copies, (d, a, v, df, bdf, time.time() + cap if cap else None))
    for d, a, v, df in singles:
        if want("single"):
            ctx.shards(shard_single, (d, a, v, df))
    if want("triple"):
        ctx.shards(shard_triple, trip)
    for d, a, v, df, ex in pairs:
        if want("pairs_" + uname(d, a)):
            ctx.shards(shard_pairs, (d, a, v, df, ex, None))
    if want("neighbours"):
        ctx.shards(shard_neigh_t3, neigh + (None,))
    for d, a, v, df, ex, cap in capped:
        if want("pairs_" + uname(d, a)):
            ctx.shards(shard_pairs, (d, a, v, df, ex, time.time() + cap))

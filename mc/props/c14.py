"""C14 - rank ids, shapes, defaults, formats and active ranges follow the data.

E2, three families:
  transform  tensors of small tree universes x every attribute configuration
             (declared / estimated shape, leaf default 0 / 7, every format
             assignment in {C,U}^depth, mutable hint both ways) x every
             transform / parameter choice of C08 / C09; the result's reported
             ids / authoritative shape / default / formats / mutable hint are
             compared with mc/ref_c14.py, and every stored coordinate of the
             result is checked against the reported shape and the fiber's
             active range (iterActive == iterOccupancy).
  lazy       every pair of 1-D fibers (own ids, shapes, active ranges, unowned
             or owned by a tensor) x every lazily evaluated operator: rank id
             and active range of the lazy result.
  join       unowned trees whose fibers carry their own id / shape / default /
             format joining a tensor through fromFiber / setRoot."""
import itertools

from fibertree import Fiber, Tensor, Payload

from mc import core
from mc.core import drive
from mc.obs import unbox, wf
from mc.univ import f1, t2, t3, mktree, mktensor, tree_content, tree_features, RANK_IDS, stored, present
from mc import ref_c09 as R9
from mc import ref_c14 as R

LEVEL = "exploration"
RULE = ("transform: every tree spec x shape mode x leaf default x format assignment x mutable hint x transform group "
        "is one case, inside which every parameter choice of the group is executed; lazy: every ordered pair of cell "
        "tuples x active range of the first operand x active range of the second x ownership is one case, inside "
        "which every lazy operator is applied; join: every tree x own-attribute configuration x constructor path.  "
        "Cases are distinct by construction.  A transform case is non-trivial when the configuration differs from the "
        "library defaults in at least one attribute (a U format, default 7, mutable True or a declared shape) and the "
        "tree stores a leaf; a lazy case when both operands store an element; a join case when the fibers' own "
        "attributes differ from the rank's")
ASSUMPTIONS = [
    "coordinates 0..N-1 (N<=3), depth 2-3, position-tagged positive int leaf values different from both defaults",
    "a transform that raises produces no tensor and is outside C14 (such cases are counted in path_counters "
    "'raised:*'; the exceptions themselves are C09 / C08 material)",
    "style 'linear' only with a declared shape (documented requirement of Fiber._flattenCoords)",
    "flattenRanks with absolute / relative only where no two stored elements of the lowest flattened rank collide "
    "(flattening never merges); mergeRanks covers the colliding cases",
    "for coordinate style 'relative' on arbitrary tensors nothing is demanded about coordinates lying inside the "
    "shape / active range: the reported shape (the upper rank's) is pinned by "
    "test_tensor.py::test_flattenRanks_corr_shape, whose comment says the combination is only meaningful for "
    "flattening a relative-coordinate split",
    "when the operand's shape is estimated nothing is demanded about getShape(authoritative=True) of the result, and "
    "'inside the reported shape' is read for tuple coordinates the way the library's own range iteration compares "
    "them (lexicographically; the estimate is the lexicographic maximum + 1); with a declared shape it is read "
    "component-wise",
    "updateCoords is exercised with an order reversal inside the extent the operand reports (declared shape or "
    "estimate), so the function itself never moves a coordinate outside the shape",
    "formats are compared only for ranks whose id exists on both sides or derives from a split; ranks created by "
    "flatten / merge / unflatten must be 'C' (documented in the source)",
    "splits without halos (with halos coordinates outside the active range are intended)",
    "project: only order-preserving shifts, scalings and order reversals; nothing is demanded about the rank id "
    "unless rank_id= is given; operands that store only explicit defaults are not projected (DESIGN section 5 row 22, "
    "reported by C07); projections only of fibers with a declared shape",
    "name and color are not part of the property",
    "a tensor-level split called with rankid= AND a depth= that names another rank renames / reshapes / formats the rank "
    "named by rankid (Fiber.splitUniform / splitNonUniform / splitEqual / splitUnEqual document that rankid overrides "
    "depth, and the data is split there)",
    "second-generation programs (mc/compose.py): as a second step flattenRanks with absolute / linear / relative only on "
    "ranks holding int coordinates, linear only with a declared shape, relative only directly after the relative-coordinate "
    "split of the same rank; programs whose flatten would have to merge stored elements are skipped; no shape is demanded "
    "after a relative-coordinate split or after flattening a rank whose shape is already a tuple; swizzleRanks is not "
    "applied to tensors holding a list-named rank; every earlier tensor of a chain must keep reporting the rank ids, "
    "authoritative shape and default it reported when it was made",
]

DFLT = 7


# ---------------------------------------------------------------------------
# family 1: transforms

def build(spec, dims, smode, dflt, fmts, mut):
    depth = len(dims)
    t = mktensor(spec, depth, shape=list(dims) if smode == "declared" else None, default=dflt, fmts=fmts)
    t.setMutable(mut)
    return t


def _levels(root):
    out = []

    def rec(f, d):
        while len(out) <= d:
            out.append([])
        out[d].append(f)
        for p in f.payloads:
            if isinstance(p, Fiber):
                rec(p, d + 1)
    if isinstance(root, Fiber):
        rec(root, 0)
    return out


class Chk:
    def __init__(self, case):
        (self.dims, self.spec, self.smode, self.dflt, self.fmts, self.mut, self.group) = case
        self.dims = tuple(self.dims)
        self.depth = len(self.dims)
        self.ids = list(RANK_IDS[:self.depth])
        self.shape = list(self.dims) if self.smode == "declared" else None
        self.fm = dict(zip(self.ids, self.fmts))
        self.C = tree_content(self.spec, self.depth, default=self.dflt)
        self.base = set(tree_features(self.spec, self.depth))
        self.base.add("shape:" + self.smode)
        if self.dflt != 0:
            self.base.add("nonzero_default")
        if "U" in self.fmts:
            self.base.add("has_U_format")
        if self.mut:
            self.base.add("mutable_true")
        if not self.C:
            self.base.add("content_empty")
        self.out = []
        self.par = ""      # exact parameters of the call being judged (recorded with a violation)

    def fresh(self):
        return build(self.spec, self.dims, self.smode, self.dflt, self.fmts, self.mut)

    # which configuration / tree features can matter for which symptom: a
    # carry-over symptom only depends on the attribute that was not carried,
    # the containment symptoms on the shape mode, the formats (they change what
    # flatten and split iterate over) and the tree
    CONFIG = {"shape": ("shape:",), "default": ("nonzero_default",), "format": ("has_U_format",),
              "mutable": ("mutable_true",), "rank-ids": ()}

    def V(self, fam, sym, feats, exp, obs):
        sel = self.CONFIG.get(sym)
        if sel is None:
            base = self.base - {"mutable_true", "nonzero_default"}
        else:
            base = {x for x in self.base if x.startswith(sel)} if sel else set()
            if "content_empty" in self.base:
                base.add("content_empty")
        self.out.append((fam, sym, base | set(feats), exp, {"call": "%s %s" % (fam, self.par), "observed": obs}))

    def call(self, fam, fn):
        try:
            return fn()
        except (Exception, SystemExit) as ex:
            core.CUR.path("raised:%s:%s@%s" % (fam, type(ex).__name__, core.exc_site(ex)))
            return None

    def check(self, fam, feats, res, exp, contain=True, shape_known=True, upper_active=None, flat=None):
        """exp = (ids, shape-or-None, fmts).  Returns True when ids and shape
        matched (so that a follow-up transform can be judged)."""
        feats = set(feats)
        eids, eshape, efm = exp
        ok = True
        try:
            ids = res.getRankIds()
            if ids != eids:
                self.V(fam, "rank-ids", feats, eids, ids)
                return False
            if eshape is not None and shape_known:
                got = res.getShape(authoritative=True)
                if got != eshape:
                    f2 = set(feats)
                    if got is None:
                        f2.add("dm:authoritative_shape_dropped")
                    elif got == self.shape and fam == "swapRanks":
                        f2.add("dm:operand_shape_kept_unswapped")
                    self.V(fam, "shape", f2, eshape, got)
                    ok = False
            d = unbox(res.getDefault())
            if d != self.dflt:
                f2 = set(feats)
                if d == 0:
                    f2.add("dm:default_reset_to_0")
                self.V(fam, "default", f2, self.dflt, d)
            gf = {}
            for rid in ids:
                k = R.key(rid)
                if k in efm:
                    gf[k] = res.getFormat(rid)
            want = {k: v for k, v in efm.items() if k in gf}
            if gf != want:
                f2 = set(feats)
                if all(v == "C" for v in gf.values()):
                    f2.add("dm:formats_reset_to_C")
                self.V(fam, "format", f2, want, gf)
            m = res.isMutable()
            if m != self.mut:
                f2 = set(feats)
                if m is False:
                    f2.add("dm:mutable_reset_to_False")
                self.V(fam, "mutable", f2, self.mut, m)
            if contain:
                if flat is not None:
                    # unflatten: label a shape that was cut out of the flattened
                    # rank's (lexicographic-maximum) estimate
                    fs, d, l = flat
                    try:
                        cut = R.unnest(fs[d], l)
                    except Exception:
                        cut = None
                    if cut is not None and res.getShape()[d:d + l + 1] == cut and self.smode == "estimated":
                        feats = feats | {"dm:shape_cut_from_lexicographic_estimate"}
                self.contain(fam, feats, res, upper_active)
            core.CUR.outcome((fam, repr(ids), repr(res.getShape()), d, tuple(sorted(gf.items(), key=repr)), m))
        except (Exception, SystemExit) as ex:
            self.V(fam, "exception-in-getter:" + type(ex).__name__, feats | {"site:" + core.exc_site(ex)},
                   None, core.tb_tail(ex))
            return False
        return ok

    def contain(self, fam, feats, res, upper_active=None):
        """Every stored coordinate inside the reported shape and inside its
        fiber's active range; iterActive == iterOccupancy."""
        shape = res.getShape()
        root = res.getRoot()
        if not isinstance(root, Fiber) or wf(root):
            return        # malformed results are C09's to report
        strict = self.smode == "declared"
        todo = [(root, 0, None)]
        while todo:
            f, lvl, pc = todo.pop()
            if lvl >= len(shape):
                continue
            s = shape[lvl]
            fl = set(feats)
            rng = f.getActive()
            for c in f.coords:
                inside = R.inside_shape(c, s) if strict else R.inside_shape_lex(c, s)
                if not inside:
                    self.V(fam, "coord-outside-shape", fl, s, [c, list(f.coords)])
                    return
                try:
                    ok = rng[0] <= c < rng[1]
                except TypeError:
                    f2 = set(fl)
                    if isinstance(c, tuple) and R.nest_pair(c) != c and \
                            R.inside_range(R.nest_pair(c), rng):
                        f2.add("dm:active_range_nested_like_pair_style")
                    self.V(fam, "active-range-incomparable", f2, c, list(rng))
                    return
                if not ok:
                    f2 = set(fl)
                    if isinstance(pc, int) and isinstance(c, int) and \
                            all(R.inside_range(x + pc, rng) for x in f.coords):
                        f2.add("dm:active_range_in_absolute_coordinates")
                    if upper_active is not None and lvl == upper_active[0] and tuple(rng) == upper_active[1]:
                        f2.add("dm:active_range_of_upper_rank")
                    self.V(fam, "coord-outside-active-range", f2, list(rng), [c, list(f.coords)])
                    return
            a = [c for c, _ in f.iterActive(tick=False)]
            o = [c for c, _ in f.iterOccupancy(tick=False)]
            if a != o:
                self.V(fam, "iterActive-differs", fl, o, a)
                return
            for c, p in zip(f.coords, f.payloads):
                if isinstance(p, Fiber):
                    todo.append((p, lvl + 1, c))

    def ctor_checks(self):
        """fromUncompressed (the nest's dimensions are the authoritative shape,
        pinned by test_tensor_shape.py) and Tensor(rank_ids=, shape=, default=)."""
        def nest(dims, prefix=()):
            if len(dims) == 1:
                return [self.C.get(prefix + (i,), self.dflt) for i in range(dims[0])]
            return [nest(dims[1:], prefix + (i,)) for i in range(dims[0])]
        for fam, fn, eshape in (
                ("fromUncompressed", lambda: Tensor.fromUncompressed(list(self.ids), nest(self.dims), default=self.dflt),
                 list(self.dims)),
                ("Tensor()", lambda: Tensor(rank_ids=list(self.ids), shape=self.shape, default=self.dflt), self.shape)):
            t = self.call(fam, fn)
            if t is None:
                continue
            try:
                if t.getRankIds() != self.ids:
                    self.V(fam, "rank-ids", set(), self.ids, t.getRankIds())
                if eshape is not None and t.getShape(authoritative=True) != eshape:
                    self.V(fam, "shape", set(), eshape, t.getShape(authoritative=True))
                if unbox(t.getDefault()) != self.dflt:
                    self.V(fam, "default", set(), self.dflt, unbox(t.getDefault()))
                if any(t.getFormat(r) != "C" for r in self.ids):
                    self.V(fam, "format", set(), "C", [t.getFormat(r) for r in self.ids])
                saved, self.smode = self.smode, "declared"
                try:
                    self.contain(fam, set(), t)
                finally:
                    self.smode = saved
            except (Exception, SystemExit) as ex:
                self.V(fam, "exception-in-getter:" + type(ex).__name__, {"site:" + core.exc_site(ex)},
                       None, core.tb_tail(ex))

    def est(self, lvl):
        """Extent of rank lvl as the operand reports it: the declared shape or
        the estimate max stored coordinate + 1 (0 without elements)."""
        if self.shape is not None:
            return self.shape[lvl]
        cs = [p[lvl] for p in R9.stored_prefixes(self.spec, self.depth, lvl + 1)]
        return max(cs) + 1 if cs else 0


def g_swizzle(k):
    D = k.depth
    for perm in itertools.permutations(range(D)):
        feats = {"identity" if perm == tuple(range(D)) else "proper_permutation"}
        exp = R.exp_perm(k.ids, k.shape, k.fm, perm)
        k.par = "rank_ids=%s" % (exp[0],)
        r = k.call("swizzleRanks", lambda: k.fresh().swizzleRanks(list(exp[0])))
        if r is not None:
            k.check("swizzleRanks", feats, r, exp)
    for d in range(D - 1):
        exp = R.exp_swap(k.ids, k.shape, k.fm, d)
        k.par = "depth=%d" % d
        r = k.call("swapRanks", lambda: k.fresh().swapRanks(depth=d))
        if r is not None:
            k.check("swapRanks", set(), r, exp)


def g_flatten(k):
    D, dims = k.depth, k.dims
    for d, l in R9.legal_flatten(D):
        for style in R9.STYLES:
            if style == "linear" and k.shape is None:
                continue
            if style in ("absolute", "relative") and \
                    R9.rank_collides(R9.stored_prefixes(k.spec, D, d + l + 1), d, l, style, dims):
                continue
            feats = {"levels=1" if l == 1 else "levels>1", "style:" + style}
            k.par = "depth=%d levels=%d style=%s" % (d, l, style)
            exp = R.exp_flatten(k.ids, k.shape, k.fm, d, l, style)
            r = k.call("flattenRanks", lambda: k.fresh().flattenRanks(depth=d, levels=l, coord_style=style))
            if r is None:
                continue
            ok = k.check("flattenRanks", feats, r, exp, contain=(style != "relative"),
                         upper_active=(d, (0, k.est(d))))
            if ok and style in R9.INVERTIBLE:
                u = k.call("unflattenRanks", lambda: r.unflattenRanks(depth=d, levels=l))
                if u is not None:
                    k.check("unflattenRanks", feats, u, R.exp_unflatten(k.ids, k.shape, k.fm, d, l),
                            flat=(r.getShape(), d, l))


def g_merge(k):
    D, dims = k.depth, k.dims
    for d, l in R9.legal_flatten(D):
        for style in ("absolute", "relative"):
            feats = {"levels=1" if l == 1 else "levels>1", "style:" + style}
            k.par = "depth=%d levels=%d style=%s" % (d, l, style)
            if k.est(d + l) > k.est(d):
                feats.add("lower_extent_exceeds_upper")
            exp = R.exp_flatten(k.ids, k.shape, k.fm, d, l, style)
            r = k.call("mergeRanks", lambda: k.fresh().mergeRanks(depth=d, levels=l, coord_style=style))
            if r is not None:
                k.check("mergeRanks", feats, r, exp, contain=(style != "relative"), upper_active=(d, (0, k.est(d))))


SPLITS = (
    ("splitUniform", (1,)), ("splitUniform", (2,)),
    ("splitEqual", (1,)), ("splitEqual", (2,)),
    ("splitNonUniform", ([0, 1],)), ("splitNonUniform", ([0, 2],)),
    ("splitUnEqual", ([1, 1],)), ("splitUnEqual", ([2, 1],)),
)


def g_split(k, splits=SPLITS):
    D = k.depth
    for d in range(D):
        exp = R.exp_split(k.ids, k.shape, k.fm, d)
        for kind, args in splits:
            for rel in (False, True):
                for how in ("depth", "rankid", "both"):
                    if how != "depth" and (rel or args[0] in (2, [0, 2], [2, 1])):
                        continue        # addressing by name: one parameter choice per kind
                    feats = set()
                    if how == "rankid":
                        feats.add("by_rankid")
                    if how == "both":
                        # rankid= together with a depth= naming another rank: rankid is
                        # documented to override depth (Fiber.splitUniform & co., "overrides the `depth` argument")
                        feats.add("by_rankid_and_other_depth")
                    if rel:
                        feats.add("relativeCoords")
                    kw = {"depth": d} if how == "depth" else {"rankid": k.ids[d]}
                    if how == "both":
                        kw["depth"] = (d + 1) % D
                    if rel:
                        kw["relativeCoords"] = True
                    k.par = "%s %s" % (args[0], kw)
                    r = k.call(kind, lambda: getattr(k.fresh(), kind)(*args, **kw))
                    if r is not None:
                        k.check(kind, feats, r, exp)
    exp = R.exp_split(k.ids, k.shape, k.fm, 0)
    k.par = "2"
    for name, fn in (("truediv", lambda t: t / 2), ("floordiv", lambda t: t // 2)):
        r = k.call(name, lambda: fn(k.fresh()))
        if r is not None:
            k.check(name, set(), r, exp)


def g_update(k):
    D, dims = k.depth, k.dims
    exp = (k.ids, k.shape, k.fm)
    for d in range(D):
        n = k.est(d)      # reverse inside the extent the operand reports
        k.par = "depth=%d func=reverse within %d" % (d, n)
        r = k.call("updateCoords", lambda: k.fresh().updateCoords(lambda i, c, p: n - 1 - c, depth=d))
        if r is not None:
            k.check("updateCoords", set(), r, exp)
        # the documented renaming of the updated rank, at every depth
        ids2 = list(k.ids)
        ids2[d] = "X"
        k.par = "depth=%d func=reverse within %d new_rank_id=X" % (d, n)
        r = k.call("updateCoords", lambda: k.fresh().updateCoords(lambda i, c, p: n - 1 - c, depth=d, new_rank_id="X"))
        # (a rank none of whose fibers stores a coordinate is left alone by updateCoords: "nothing to do")
        if r is not None and all(any(len(f_.coords) for f_ in rk.fibers) for rk in k.fresh().ranks[:d + 1]):
            k.check("updateCoords", {"new_rank_id", "update_depth>0" if d else "update_depth=0"}, r,
                    (ids2, k.shape, k.fm))
    k.par = "identity at the leaf rank"
    r = k.call("updatePayloads", lambda: k.fresh().updatePayloads(lambda i, c, p: p, depth=D - 1))
    if r is not None:
        k.check("updatePayloads", set(), r, exp)
    # constructor results
    k.par = ""
    k.check("fromFiber", set(), k.fresh(), exp)
    k.ctor_checks()


GROUPS = ("swizzle", "flatten", "merge", "split", "update")
GROUPS_Q = ("swizzle", "flatten", "merge", "split1", "update")     # split1: one parameter value per split kind
GROUP_FN = {"swizzle": g_swizzle, "flatten": g_flatten, "merge": g_merge, "split": g_split, "update": g_update,
            "split1": lambda k: g_split(k, SPLITS[::2])}


def case_transform(case):
    k = Chk(case)
    GROUP_FN[k.group](k)
    if k.R_nontrivial():
        core.CUR.nt(k.group)
    return k.out


def _nontrivial(self):
    return bool(R9.stored_points(self.spec, self.depth)) and \
        ("U" in self.fmts or self.dflt != 0 or self.mut or self.smode == "declared")


Chk.R_nontrivial = _nontrivial


def configs(depth, mode="full"):
    """full: {declared, estimated} x {0, 7} x {C,U}^depth x {False, True};
    paired: default and mutable hint move together ((0, False), (7, True));
    shapefmt: shape mode x formats with default 7 and mutable True."""
    for smode in ("declared", "estimated"):
        for fmts in itertools.product("CU", repeat=depth):
            if mode == "full":
                dm = [(d, m) for d in (0, DFLT) for m in (False, True)]
            elif mode == "paired":
                dm = [(0, False), (DFLT, True)]
            else:
                dm = [(DFLT, True)]
            for dflt, mut in dm:
                yield smode, dflt, fmts, mut


def _universe(name):
    if name == "T2(2,2)":
        return (2, 2), t2(2, 2)
    if name == "T2(3,2)":
        return (3, 2), t2(3, 2)
    if name == "T2(2,3;-v)":
        return (2, 3), t2(2, 3, "-v")
    if name == "T2(3,2;-v)":
        return (3, 2), t2(3, 2, "-v")
    if name == "T3c(2,2,2;<=2|8)":
        return (2, 2, 2), list(R9.t4c_specs((2, 2, 2), at_most=2, at_least=8))
    if name == "T3(2,2,2;-v)":
        return (2, 2, 2), t3(2, 2, 2, "-v")
    raise ValueError(name)


def shard_transform(acc, shard, nshards, params):
    name, mode, groups, deadline = params
    dims, specs = _universe(name)

    def gen():
        for spec in specs:
            for smode, dflt, fmts, mut in configs(len(dims), mode):
                for g in groups:
                    yield (dims, spec, smode, dflt, fmts, mut, g)
    drive(acc, "transform", case_transform, gen(), shard, nshards, family="transform[%s,%s]" % (name, mode), deadline=deadline)


# ---------------------------------------------------------------------------
# family 2: lazy results

def _mk1(cells, tag, rid, shape, active, owned):
    f = Fiber([i for i in stored(cells)],
              [0 if cells[i] == '0' else tag * 10 + i + 1 for i in stored(cells)],
              shape=shape, active_range=active)
    if owned:
        t = Tensor.fromFiber([rid], f, shape=[shape] if shape else None)
        return t.getRoot(), t
    f.getRankAttrs().setId(rid)
    return f, None


def case_lazy(case):
    ac, bc, a_shape, a_act, b_shape, b_act, owned = case
    out = []
    feats = set()
    if not stored(ac) or not stored(bc):
        feats.add("stored_empty_operand")
    if a_act is not None:
        feats.add("a_explicit_active")
    if b_act is not None:
        feats.add("b_explicit_active")
    feats.add("owned" if owned else "unowned")
    feats.add("a_shape:declared" if a_shape else "a_shape:estimated")
    A = R.active_of(stored(ac), a_shape, a_act)
    B = R.active_of(stored(bc), b_shape, b_act)
    keep = []

    def ab():
        a, ta = _mk1(ac, 1, "A", a_shape, a_act, owned)
        b, tb = _mk1(bc, 2, "B", b_shape, b_act, owned)
        keep.append((ta, tb))
        return a, b

    def V(fam, sym, exp, obs, *extra):
        out.append((fam, sym, feats | set(extra), exp, obs))

    def chk(fam, fn, eid, eact, *extra):
        try:
            a, b = ab()
            r = fn(a, b)
        except (Exception, SystemExit) as ex:
            V(fam, "exception:" + type(ex).__name__, None, core.tb_tail(ex), "site:" + core.exc_site(ex), *extra)
            return
        if not isinstance(r, Fiber) or not r.isLazy():
            V(fam, "not-lazy", "lazy Fiber", repr(r)[:60], *extra)
            return
        if eid is not None:
            gid = r.getRankAttrs().getId()
            if gid != eid:
                f2 = list(extra)
                if gid == "B":
                    f2.append("dm:second_operand_id")
                V(fam, "lazy-rank-id", eid, gid, *f2)
        gact = r.getActive()
        if tuple(gact) != tuple(eact):
            f2 = list(extra)
            if tuple(gact) == tuple(B) and tuple(B) != tuple(A):
                f2.append("dm:second_operand_range")
            V(fam, "lazy-active-range", list(eact), list(gact), *f2)
        core.CUR.outcome((fam, r.getRankAttrs().getId(), tuple(gact)))

    chk("and", lambda a, b: a & b, "A", A)
    chk("or", lambda a, b: a | b, "A", A)
    chk("xor", lambda a, b: a ^ b, "A", A)
    chk("sub", lambda a, b: a - b, "A", A)
    chk("lshift", lambda a, b: a << b, "A", B)          # destination's id, source's range
    chk("intersection", lambda a, b: Fiber.intersection(a, b), "A", A)
    chk("intersection-lf", lambda a, b: Fiber.intersection(a, b, style="leader-follower"), "A", A)
    chk("union", lambda a, b: Fiber.union(a, b), "A", A)
    chk("prune", lambda a, b: a.prune(lambda i, c, p: c != 1), "A", A)
    # populate also hands the source's range to the destination (documented side effect)
    try:
        a, b = ab()
        a << b
        if tuple(a.getActive()) != tuple(B):
            V("lshift", "destination-active-range", list(B), list(a.getActive()))
    except (Exception, SystemExit) as ex:
        V("lshift", "exception:" + type(ex).__name__, None, core.tb_tail(ex), "site:" + core.exc_site(ex))
    # dense co-iteration
    if a_shape:
        chk("coiterShape", lambda a, b: Fiber.coiterShape([a, b]), "A", (0, a_shape))
        chk("coiterShapeRef", lambda a, b: Fiber.coiterShapeRef([a, b]), "A", (0, a_shape))
    chk("coiterActiveShape", lambda a, b: Fiber.coiterActiveShape([a, b]), "A", A)
    chk("coiterActiveShapeRef", lambda a, b: Fiber.coiterActiveShapeRef([a, b]), "A", A)
    chk("coiterRangeShape", lambda a, b: Fiber.coiterRangeShape([a, b], 1, 3), "A", (1, 3))
    chk("coiterRangeShapeRef", lambda a, b: Fiber.coiterRangeShapeRef([a, b], 1, 3), "A", (1, 3))
    # projections of the first operand
    if a_shape and (present(ac) or not stored(ac)):
        s, e = A
        for name, fn in (("shift", lambda c: c + 2), ("scale", lambda c: 2 * c), ("reverse", lambda c: 10 - c)):
            lo, hi = sorted((fn(s), fn(e - 1)))
            chk("project", lambda a, b: a.project(fn), None, (lo, hi + 1), "trans:" + name)
            chk("project", lambda a, b: a.project(fn, rank_id="P"), "P", (lo, hi + 1), "trans:" + name, "rank_id")
            chk("project", lambda a, b: a.project(fn, interval=(3, 6)), None, (3, 6), "trans:" + name, "interval")
    else:
        core.CUR.path("project:skipped")
    if stored(ac) and stored(bc):
        core.CUR.nt("lazy")
    return out


def shard_lazy(acc, shard, nshards, params):
    n, = params
    u = f1(n)
    a_acts = [None] + [(s, e) for s in range(n + 1) for e in range(s + 1, n + 2)]
    b_acts = [None, (1, n)]

    def gen():
        for owned in (False, True):
            for a_shape, b_shape in ((n + 1, n + 2), (None, None)):
                for a_act in a_acts:
                    for b_act in b_acts:
                        for ac in u:
                            for bc in u:
                                yield (ac, bc, a_shape, a_act, b_shape, b_act, owned)
    drive(acc, "lazy", case_lazy, gen(), shard, nshards, family="lazy[N=%d]" % n)


# ---------------------------------------------------------------------------
# family 3: unowned fibers joining a tensor

def _own_tree(spec, dims, own, dflt_own, prefix=()):
    """Raw tree whose fibers carry their own id / shape / default / format."""
    own_id, own_shape, own_fmt = own
    lvl = len(prefix)
    n = dims[0]
    cs, ps = [], []
    kw = {}
    if own_shape == "big":
        kw["shape"] = n + 2
    elif own_shape == "exact":
        kw["shape"] = n
    if len(dims) == 1:
        for i, x in enumerate(spec):
            if x == '-':
                continue
            cs.append(i)
            v = 1
            for c in prefix + (i,):
                v = v * 10 + c + 1
            ps.append(dflt_own if x == '0' else v)
        f = Fiber(cs, ps, default=dflt_own, **kw)
    else:
        for i, x in enumerate(spec):
            if x is None:
                continue
            cs.append(i)
            ps.append(_own_tree(x, dims[1:], own, dflt_own, prefix + (i,)))
        f = Fiber(cs, ps, **kw)
    if own_id:
        f.getRankAttrs().setId("X%d" % lvl)
    if own_fmt:
        f.getRankAttrs().setFormat("U")
    return f


def case_join(case):
    dims, spec, own, dflt_own, declared, dflt_t, path = case[:7]
    used = len(case) > 7 and case[7]       # the unowned tree was traversed / queried before it joined
    dims = tuple(dims)
    depth = len(dims)
    ids = list(RANK_IDS[:depth])
    out = []
    feats = set(tree_features(spec, depth))
    own_id, own_shape, own_fmt = own
    feats.add("own_shape:%s" % own_shape)
    if own_id:
        feats.add("own_id")
    if own_fmt:
        feats.add("own_format_U")
    if dflt_own != dflt_t:
        feats.add("own_default_differs")
    feats.add("declared_shape" if declared else "no_declared_shape")
    feats.add("via:" + path)
    if used:
        feats.add("read_before_joining")

    def V(sym, exp, obs, *extra):
        out.append((path, sym, feats | set(extra), exp, obs))
    try:
        root = _own_tree(spec, dims, own, dflt_own)
        if used:
            for fibers in _levels(root):
                for f in fibers:
                    f.getActive()
                    list(f.iterActive(tick=False))
                    list(f & f)
                    f.getShape()
        if path == "fromFiber":
            t = Tensor.fromFiber(ids, root, shape=list(dims) if declared else None, default=dflt_t)
        else:
            t = Tensor(rank_ids=ids, shape=list(dims) if declared else None, default=dflt_t)
            t.setRoot(root)
    except (Exception, SystemExit) as ex:
        V("exception:" + type(ex).__name__, None, core.tb_tail(ex), "site:" + core.exc_site(ex))
        return out
    try:
        # what the tensor reports
        if t.getRankIds() != ids:
            V("rank-ids", ids, t.getRankIds())
        auth = t.getShape(authoritative=True)
        shape = t.getShape()
        # estimate from the spec: max stored coordinate + 1 per level, 0 for a level without elements
        est = []
        for lvl in range(depth):
            cs = [p[lvl] for p in R9.stored_prefixes(spec, depth, lvl + 1)]
            est.append(max(cs) + 1 if cs else 0)
        has_fiber = [bool(R9.fibers_at(spec, depth, lvl)) for lvl in range(depth)]
        if path == "fromFiber" and declared:
            if auth != list(dims):
                V("shape", list(dims), auth)
        elif not declared and own_shape == "none":
            if auth is not None:
                V("shape-claimed-authoritative", None, auth)
            if shape != est:
                V("estimated-shape", est, shape)
        elif not declared and all(has_fiber):
            want = [n + 2 if own_shape == "big" else n for n in dims]
            if auth != want:
                V("shape", want, auth)
        if unbox(t.getDefault()) != dflt_t:
            V("default", dflt_t, unbox(t.getDefault()))
        # what every fiber reports after joining
        shape = t.getShape()
        for lvl, fibers in enumerate(_levels(t.getRoot())):
            rk = t.ranks[lvl]
            for f in fibers:
                if f.getOwner() is not rk or f.getRankAttrs() is not rk.getAttrs():
                    V("fiber-attrs-not-the-ranks", None, lvl, "level=%d" % lvl)
                    return out
                if f.getRankAttrs().getId() != ids[lvl]:
                    V("fiber-rank-id", ids[lvl], f.getRankAttrs().getId(), "level=%d" % lvl)
                fs = f.getShape(all_ranks=False)
                if fs != shape[lvl]:
                    V("fiber-shape", shape[lvl], fs, "level=%d" % lvl)
                d = f.getDefault()
                if lvl == depth - 1:
                    if unbox(d) != dflt_t:
                        V("fiber-default", dflt_t, unbox(d), "level=%d" % lvl)
                elif d is not Fiber:
                    V("fiber-default", "Fiber", repr(d), "level=%d" % lvl)
                if rk.getFormat() != "C":
                    V("fiber-format", "C", rk.getFormat(), "level=%d" % lvl)
                if tuple(f.getActive()) != (0, shape[lvl]):
                    V("fiber-active-range", [0, shape[lvl]], list(f.getActive()), "level=%d" % lvl)
                for c in f.coords:
                    if not R.inside_shape(c, shape[lvl]):
                        V("coord-outside-shape", shape[lvl], c, "level=%d" % lvl)
                        break
                a = [c for c, _ in f.iterActive(tick=False)]
                o = [c for c, _ in f.iterOccupancy(tick=False)]
                if a != o:
                    V("iterActive-differs", o, a, "level=%d" % lvl)
        core.CUR.outcome((repr(auth), repr(shape)))
    except (Exception, SystemExit) as ex:
        V("exception-in-getter:" + type(ex).__name__, None, core.tb_tail(ex), "site:" + core.exc_site(ex))
    if own_id or own_fmt or own_shape != "none" or dflt_own != dflt_t:
        core.CUR.nt("join")
    return out


def shard_join(acc, shard, nshards, params):
    name, = params
    dims, specs = _universe(name)

    def gen():
        for spec in specs:
            for own_id in (False, True):
                for own_shape in ("none", "exact", "big"):
                    for own_fmt in (False, True):
                        for dflt_own, dflt_t in ((0, 0), (DFLT, DFLT), (0, DFLT), (DFLT, 0)):
                            for declared in (False, True):
                                for path in ("fromFiber", "setRoot"):
                                    yield (dims, spec, (own_id, own_shape, own_fmt), dflt_own, declared, dflt_t, path)
                                    if own_shape == "none" and dflt_own == dflt_t and not own_id:
                                        yield (dims, spec, (own_id, own_shape, own_fmt), dflt_own, declared, dflt_t, path, True)
    drive(acc, "join", case_join, gen(), shard, nshards, family="join[%s]" % name)


# ---------------------------------------------------------------------------
# second-generation transforms (lead): see mc/compose.py

def case_compose(case):
    from mc import compose
    return compose.case_compose(case, "C14")


def shard_compose(acc, shard, nshards, params):
    from mc import compose
    n0, maxpts, deadline = params[:3]
    dims = params[3] if len(params) > 3 else None
    label = "compose[ranks=%d,<=%d points]" % (n0, maxpts) if dims is None else \
        "compose[ranks=%d,extents=%s,permutations+flattens,<=%d points]" % (n0, "x".join(map(str, dims)), maxpts)
    core.drive(acc, "compose", case_compose, compose.cases(n0, maxpts, dims=dims), shard, nshards,
               family=label, deadline=deadline)


# ---------------------------------------------------------------------------
# estimated shapes of unowned fiber trees: every stored coordinate lies inside the reported shape, and the estimate
# is the smallest such shape (largest stored coordinate of any fiber of the level, plus one)

def case_estimate(case):
    spec, depth = case
    from mc.univ import mktree as _mktree
    out = []
    feats = {"unowned_tree", "depth:%d" % depth, "shape:estimated"}
    try:
        f = _mktree(spec, depth)
        mx = [None] * depth

        def walk(x, d):
            for c, p in zip(x.coords, x.payloads):
                mx[d] = c if mx[d] is None else max(mx[d], c)
                if isinstance(p, Fiber):
                    walk(p, d + 1)
        walk(f, 0)
        if mx[0] is None:
            return out
        exp = [m + 1 for m in mx if m is not None]
        for name, got in (("estimateShape", f.estimateShape()), ("getShape", f.getShape())):
            got = list(got)
            # levels below which nothing is stored may be reported as 0 or left out
            g2 = [x for x in got if x != 0]
            if g2 != exp:
                fs = set(feats)
                if any(isinstance(a, int) and isinstance(b, int) and a < b for a, b in zip(g2, exp)):
                    fs.add("stored_coordinate_outside_reported_shape")
                out.append((name, "estimated-shape", fs, exp, got))
        core.CUR.nt("estimate")
    except Exception as ex:
        out.append(("estimateShape", "exception:" + type(ex).__name__, feats | {"site:" + core.exc_site(ex)}, None,
                    core.tb_tail(ex)))
    return out


def shard_estimate(acc, shard, nshards, params):
    from mc.univ import t2 as _t2, t3 as _t3
    cases = [(s_, 2) for s_ in _t2(2, 3)] + [(s_, 3) for s_ in _t3(2, 2, 2)][::params]
    drive(acc, "estimate", case_estimate, cases, shard, nshards, family="estimate[T2(2,3), T3(2,2,2) every %d-th]" % params)


def case_ragged(case):
    """Tensor.fromUncompressed without shape= on a depth-3 nest whose sub-nests have different extents (legal:
    only sibling lists must be equally long): the computed shape contains every stored coordinate."""
    lens, rows = case
    out = []
    feats = {"ragged_nest", "depth:3", "shape:computed"}
    nest = [[[1] * k for _ in range(r)] for k, r in zip(lens, rows)]
    exp = [len(nest), max(rows), max(lens)]
    if lens.index(max(lens)) >= 2 or rows.index(max(rows)) >= 2:
        feats.add("widest_subnest_at_index>=2")
    try:
        t = Tensor.fromUncompressed(["N", "M", "K"], nest)
        got = list(t.getShape())
        if got != exp:
            fs = set(feats)
            if any(a < b for a, b in zip(got, exp)):
                fs.add("stored_coordinate_outside_reported_shape")
            out.append(("fromUncompressed", "shape", fs, exp, got))
        core.CUR.nt("ragged")
    except Exception as ex:
        out.append(("fromUncompressed", "exception:" + type(ex).__name__, feats | {"site:" + core.exc_site(ex)}, exp,
                    core.tb_tail(ex)))
    return out


def shard_ragged(acc, shard, nshards, params):
    # (the rows of one level must be equally many - Fiber._makeFiber asserts it -, their lengths may differ between parents)
    cases = [(lens, (r,) * 3) for lens in itertools.product((1, 2, 3), repeat=3) for r in (1, 2)]
    cases += [(lens, (1,) * 4) for lens in itertools.product((1, 2), repeat=4)]
    drive(acc, "ragged", case_ragged, cases, shard, nshards, family="ragged-nests[3-4 sub-nests, leaf lengths 1..3 differing between parents]")


CASES = {"ragged": case_ragged, "estimate": case_estimate, "transform": case_transform, "lazy": case_lazy, "join": case_join, "compose": case_compose}


def run(ctx):
    import time
    q = ctx.quick
    import time as _t
    if not getattr(ctx, "only", None) or "estimate" in ctx.only:
        ctx.shards(shard_estimate, 7 if q else 1)
        ctx.shards(shard_ragged, None, nshards=4)
    if not getattr(ctx, "only", None) or "compose" in ctx.only:
        ctx.shards(shard_compose, (2, 3 if q else 4, _t.time() + (60 if q else 600)))
        ctx.shards(shard_compose, (3, 1 if q else 2, _t.time() + (60 if q else 900)))
        ctx.shards(shard_compose, (4, 2 if q else 3, _t.time() + (60 if q else 900)))
        from mc import compose as _c
        ctx.shards(shard_compose, (3, 1 if q else 2, _t.time() + (60 if q else 900), _c.DIMS3))

    if q:
        tplan = [("T2(2,2)", "full", None), ("T2(2,3;-v)", "shapefmt", None), ("T2(3,2;-v)", "shapefmt", None),
                 ("T3c(2,2,2;<=2|8)", "shapefmt", None)]
        lazy_n, join_u = 2, ["T2(2,2)"]
    else:
        tplan = [("T2(2,2)", "full", None), ("T2(2,3;-v)", "full", None), ("T2(3,2)", "shapefmt", None),
                 ("T3c(2,2,2;<=2|8)", "full", None), ("T3(2,2,2;-v)", "shapefmt", 900)]
        lazy_n, join_u = 3, ["T2(2,2)", "T3(2,2,2;-v)"]
    from mc import compose as _cd
    ctx.bounds = {
        "compose": _cd.describe(q),
        "transform": "universes (with configuration mode) %s; configurations full = {declared, estimated shape} x "
                     "{default 0, 7} x {C,U}^depth x {mutable False, True}, paired = default and mutable hint move together "
                     "((0,False),(7,True)), shapefmt = shape mode x formats with default 7 and mutable True; swizzleRanks every permutation, swapRanks every depth, flattenRanks every "
                     "legal (depth, levels) x 5 styles (+ unflattenRanks for tuple / pair), mergeRanks absolute / relative, "
                     "splitUniform / splitEqual / splitNonUniform / splitUnEqual (%s, relativeCoords both "
                     "ways, by depth, by rank id, and by rank id together with a depth naming another rank) at every depth, / and //, updateCoords at every depth, updatePayloads, "
                     "and the constructor result itself" % (", ".join("%s:%s" % (n, m) for n, m, _ in tplan),
                                                          "one parameter value" if q else "two parameter values"),
        "lazy": "all ordered pairs of F1(%d) x first operand's active range in {None} + every (s,e) with 0<=s<e<=%d x second "
                "operand's in {None,(1,%d)} x shapes {declared, estimated} x {unowned, owned}; operators & | ^ - << "
                "intersection (both styles) union prune coiterShape[Ref] coiterActiveShape[Ref] coiterRangeShape[Ref] "
                "project (shift, scale, reverse; plain, rank_id=, interval=)" % (lazy_n, lazy_n + 1, lazy_n),
        "join": "universes %s; fibers with / without own id, own shape in {none, exact, larger}, own format U, own default "
                "equal to / different from the tensor's; declared shape or not; fromFiber and setRoot" % ", ".join(join_u),
    }
    only = getattr(ctx, "only", None)

    def want(name):
        return not only or any(name.startswith(o) for o in only)
    for name, mode, dl in tplan:
        if want("transform") or want(name):
            ctx.shards(shard_transform, (name, mode, GROUPS_Q if q else GROUPS,
                                         None if dl is None else time.time() + dl))
    if want("lazy"):
        ctx.shards(shard_lazy, (lazy_n,))
    if want("join"):
        for name in join_u:
            ctx.shards(shard_join, (name,))

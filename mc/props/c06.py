"""C06 - kernel results do not depend on the dataflow used to compute them.

E2 over programs x inputs: every expression of a small einsum family x every
operand valuation over a small alphabet x every loop order (operands swizzled to
be concordant) x every uniform tiling of one (thorough: also two) index
variable(s) x both intersection styles, executed with the real library by the
interpreter in mc/kernel.py and compared with dense evaluation."""
import itertools
import time

from fibertree import Tensor

from mc import core
from mc.kernel import EXPRS, Kernel, dense, make_inputs, nest, index_vars, all_values

LEVEL = "exploration"
RULE = ("programs = (expression, loop order, tiling, tile-loop placement, intersection style); inputs = every valuation of "
        "the operands over the stated alphabet; all combinations enumerated by nested loops; non-trivial = the dense "
        "result is non-empty")
ASSUMPTIONS = [
    "index ranges 2 per variable (3 for the single-variable expressions); entries in {0,1} (quick) / {0,1,2} and {-1,0,1,2} (thorough)",
    "the kernel idiom is the one in mc/kernel.py (populate for output ranks, & or leader-follower with zero products filtered, += at the leaf)",
    "tilings are splitUniform applied to every operand holding the variable, tile-upper loops in loop order; inner tile loops either all innermost or directly below their upper loop",
]


# expression aliases with a wider output rank: cancellation of a stored partial
# sum followed by the insertion of a *new* smaller coordinate needs >= 3 output
# coordinates (reduction rank outermost, mixed-sign entries)
EXPRS["matvec-m3"] = EXPRS["matvec"]
EXPRS["colsum-n3"] = EXPRS["colsum"]
# unequal extents with the longer rank BELOW the shorter one (a tiling of K splits at depth 1 of A[M,K])
EXPRS["matvec-k3"] = EXPRS["matvec"]
EXPRS["rowsum-k3"] = EXPRS["rowsum"]
EXPRS["dot-k4"] = EXPRS["dot"]
# four output coordinates revisited three times (reduction rank outermost): a visit can insert several new
# coordinates below an existing one, reach it, append another one - and be followed by one more visit
EXPRS["matvec-m4k3"] = EXPRS["matvec"]
# operands built without a declared shape (rank extents estimated from the fibers appended to them)
EXPRS["matvec-k3-est"] = EXPRS["matvec"]
EXPRS["matmul-est"] = EXPRS["matmul"]
EST = {"matvec-k3-est", "matmul-est"}
WIDE = {"matvec-m3": {"m": 3, "k": 2}, "colsum-n3": {"m": 2, "n": 3}, "matvec-k3": {"m": 2, "k": 3},
        "rowsum-k3": {"m": 2, "k": 3}, "dot-k4": {"k": 4}, "matvec-m4k3": {"m": 4, "k": 3}, "matvec-k3-est": {"m": 2, "k": 3}}


def shapes_for(name):
    if name in WIDE:
        return dict(WIDE[name])
    out, ins = EXPRS[name]
    allv = index_vars(ins)
    n = 3 if len(allv) == 1 else 2
    return {v: n for v in allv}


def case_kernel(case):
    name, vals, order, tiles, style, inner_after = case
    out, ins = EXPRS[name]
    shapes = shapes_for(name)
    nests = [nest([shapes[v] for v in r], flat) for r, flat in zip(ins, vals)]
    exp = dense(out, ins, nests, shapes)
    feats = {"expr:" + name, "style:" + style}
    if tiles:
        feats.add("tiled")
    if any(all(x == 0 for x in flat) for flat in vals):
        feats.add("empty_operand")
    res = []
    try:
        tensors = make_inputs(ins, nests, shapes, declared=name not in EST)
        k = Kernel(out, ins, order, dict(tiles), style, inner_after)
        k.run(tensors)
        got = k.zcontent()
        if got != exp:
            res.append(("kernel", "result-differs-from-dense", feats, exp, got))
    except Exception as ex:
        res.append(("kernel", "exception:" + type(ex).__name__, feats | {"site:" + core.exc_site(ex)},
                    exp, core.tb_tail(ex)))
    if exp:
        core.CUR.nt("kernel")
    core.CUR.path("expr:" + name)
    core.CUR.path("style:" + style)
    core.CUR.path("tiled" if tiles else "untiled")
    return res


def programs(name, tile_mode, placements):
    out, ins = EXPRS[name]
    shapes = shapes_for(name)
    allv = index_vars(ins)
    styles = ("two-finger", "leader-follower") if any(
        sum(1 for r in ins if v in r) > 1 for v in allv) else ("two-finger",)
    tilings = [()]
    if tile_mode >= 1:
        for v in allv:
            for s in range(1, shapes[v] + 1):
                tilings.append(((v, s),))
        # tiling through `tensor / parts` (negative entry = number of parts) where the variable is the top rank of
        # every operand holding it
        for v in allv:
            if all(r[0] == v for r in ins if v in r):
                for parts in range(1, shapes[v] + 1):
                    tilings.append(((v, -parts),))
    if tile_mode >= 2:
        for v, w in itertools.combinations(allv, 2):
            for s in range(1, shapes[v] + 1):
                for t in range(1, shapes[w] + 1):
                    tilings.append(((v, s), (w, t)))
    for order in itertools.permutations(allv):
        for tiles in tilings:
            for pl in (placements if tiles else (False,)):
                for style in styles:
                    yield (order, tiles, style, pl)


def shard_expr(acc, shard, nshards, params):
    name, alphabet, tile_mode, placements, deadline = params
    out, ins = EXPRS[name]
    shapes = shapes_for(name)
    progs = list(programs(name, tile_mode, placements))

    def gen():
        for vals in itertools.product(*[list(all_values(r, shapes, alphabet)) for r in ins]):
            for (order, tiles, style, pl) in progs:
                yield (name, vals, order, tiles, style, pl)
    core.drive(acc, "kernel", case_kernel, gen(), shard, nshards,
               family="%s[entries=%s,tile_mode=%d]" % (name, list(alphabet), tile_mode), deadline=deadline)



def final_ranks(allv, v):
    return [x for x in allv if x != v] + [v + ".1", v + ".0.1", v + ".0.0"]


def case_twolevel(case):
    """One variable tiled twice (v -> v.1, v.0 -> v.1, v.0.1, v.0.0), optionally with the operands re-ordered between
    the two tilings so that the inner tile rank sits above its outer one when it is tiled again; every complete
    loop order over the final ranks."""
    name, vals, v, s1, s2, between, order, style = case
    out, ins = EXPRS[name]
    shapes = shapes_for(name)
    nests = [nest([shapes[x] for x in r], flat) for r, flat in zip(ins, vals)]
    exp = dense(out, ins, nests, shapes)
    feats = {"expr:" + name, "style:" + style, "tiled_twice", "reordered_between_tilings" if between else "tilings_back_to_back"}
    res = []
    try:
        tensors = make_inputs(ins, nests, shapes)
        allv = index_vars(ins)
        prep = [("split", v, s1)]
        if between:
            prep.append(("swizzle", [v + ".0"] + [x for x in allv if x != v] + [v + ".1"]))
        prep.append(("split", v + ".0", s2))
        k = Kernel(out, ins, list(order), {}, style, False, prep=prep)
        k.run(tensors)
        got = k.zcontent()
        if got != exp:
            res.append(("kernel", "result-differs-from-dense", feats, exp, got))
    except Exception as ex:
        res.append(("kernel", "exception:" + type(ex).__name__, feats | {"site:" + core.exc_site(ex)},
                    exp, core.tb_tail(ex)))
    if exp:
        core.CUR.nt("kernel")
    core.CUR.path("expr:" + name)
    core.CUR.path("tiled-twice")
    return res


def shard_twolevel(acc, shard, nshards, params):
    name, alphabet, v, deadline = params
    out, ins = EXPRS[name]
    shapes = shapes_for(name)
    allv = index_vars(ins)
    styles = ("two-finger", "leader-follower") if any(sum(1 for r in ins if x in r) > 1 for x in allv) else ("two-finger",)
    orders = list(itertools.permutations(final_ranks(allv, v)))
    sizes = range(1, shapes[v] + 1)

    def gen():
        for vals in itertools.product(*[list(all_values(r, shapes, alphabet)) for r in ins]):
            for s1 in sizes:
                for s2 in sizes:
                    for between in (False, True):
                        for order in orders:
                            for style in styles:
                                yield (name, vals, v, s1, s2, between, order, style)
    core.drive(acc, "twolevel", case_twolevel, gen(), shard, nshards,
               family="%s[%s tiled twice, entries=%s]" % (name, v, list(alphabet)), deadline=deadline)


def case_template(case):
    """Two kernels of the same expression, their outputs derived from ONE empty template tensor by swizzling it to
    each loop order (a common idiom): both results equal the dense evaluation and the template stays empty."""
    name, vals, order1, order2, style = case
    out, ins = EXPRS[name]
    shapes = shapes_for(name)
    nests = [nest([shapes[v] for v in r], flat) for r, flat in zip(ins, vals)]
    exp = dense(out, ins, nests, shapes)
    feats = {"expr:" + name, "style:" + style, "shared_output_template"}
    zo = [[v for v in o if v in out] for o in (order1, order2)]
    feats.add("first_output_order_is_template_order" if zo[0] == list(out) else "first_output_order_permuted")
    feats.add("second_output_order_is_template_order" if zo[1] == list(out) else "second_output_order_permuted")
    res = []
    try:
        Z0 = Tensor(rank_ids=list(out), shape=[shapes[v] for v in out], name="Z")
        for i, order in enumerate((order1, order2)):
            k = Kernel(out, ins, order, {}, style, False)
            k.run(make_inputs(ins, nests, shapes), ztemplate=Z0)
            got = k.zcontent()
            if got != exp:
                res.append(("kernel", "result-differs-from-dense", feats | {"kernel:%d" % (i + 1)}, exp, got))
                break
        if Z0.countValues() != 0:
            res.append(("kernel", "output-template-modified", feats, 0, Z0.countValues()))
    except Exception as ex:
        res.append(("kernel", "exception:" + type(ex).__name__, feats | {"site:" + core.exc_site(ex)},
                    exp, core.tb_tail(ex)))
    if exp:
        core.CUR.nt("kernel")
    return res


def shard_template(acc, shard, nshards, params):
    name, alphabet = params
    out, ins = EXPRS[name]
    shapes = shapes_for(name)
    allv = index_vars(ins)
    orders = list(itertools.permutations(allv))

    def gen():
        for vals in itertools.product(*[list(all_values(r, shapes, alphabet)) for r in ins]):
            for o1 in orders:
                for o2 in orders:
                    yield (name, vals, o1, o2, "two-finger")
    core.drive(acc, "template", case_template, gen(), shard, nshards,
               family="%s[shared output template, entries=%s]" % (name, list(alphabet)))


def shard_cancel(acc, shard, nshards, params):
    """matmul with signed entries (partial sums cancel: an output row that exists can end a pass at zero while a new
    one was created earlier in the same pass), untiled, every loop order, both styles."""
    name = "matmul"
    out, ins = EXPRS[name]
    shapes = shapes_for(name)
    orders = list(itertools.permutations(index_vars(ins)))

    def gen():
        for a in all_values(ins[0], shapes, (-1, 0, 1)):
            for b in all_values(ins[1], shapes, (0, 1)):
                for order in orders:
                    for style in ("two-finger", "leader-follower"):
                        yield (name, (a, b), order, (), style, False)
    core.drive(acc, "kernel", case_kernel, gen(), shard, nshards,
               family="matmul[A in {-1,0,1}, B in {0,1}: cancelling partial sums]", deadline=params)


CASES = {"twolevel": case_twolevel, "kernel": case_kernel, "template": case_template}


def run(ctx):
    q = ctx.quick
    if q:
        plan = [(n, (0, 1), 1, (False,)) for n in
                ("dot", "elem", "elem2d", "matvec", "matmul", "rowsum", "sumall", "colsum", "outer", "elem3")]
        plan.append(("matmul-scale", (0, 1), 0, (False,)))
        plan.append(("dot", (-1, 0, 1, 2), 1, (False, True)))
        plan.append(("matvec", (0, 1, 2), 0, (False,)))
        plan.append(("matvec-m3", (-1, 0, 1), 0, (False,)))
        plan.append(("sum3", (0, 1), 2, (False,)))
        plan.append(("colsum-n3", (-1, 0, 1), 0, (False,)))
        plan.append(("matvec-k3", (0, 1), 1, (False,)))
        plan.append(("matvec-m4k3", (0, 1), 0, (False,)))
        plan.append(("matvec-k3-est", (0, 1), 1, (False,)))
    else:
        small = ("dot", "elem", "rowsum", "sumall", "colsum", "outer")
        plan = [(n, (-1, 0, 1, 2), 2, (False, True)) for n in small]
        plan += [("elem2d", (0, 1, 2), 2, (False, True)), ("matvec", (-1, 0, 1, 2), 2, (False, True)),
                 ("elem3", (0, 1, 2), 1, (False, True)), ("matmul", (0, 1), 2, (False, True)),
                 ("matmul", (0, 1, 2), 1, (False,)), ("matmul-scale", (0, 1), 1, (False, True)),
                 ("matvec-m3", (-1, 0, 1, 2), 1, (False,)), ("colsum-n3", (-1, 0, 1, 2), 1, (False,)),
                 ("sum3", (0, 1), 2, (False, True)), ("ttv", (0, 1), 2, (False,)),
                 ("matvec-k3", (0, 1, 2), 2, (False, True)), ("matvec-m4k3", (0, 1), 1, (False,)),
                 ("matvec-k3-est", (0, 1, 2), 2, (False, True)), ("matmul-est", (0, 1), 1, (False,))]
    ctx.bounds = {"plan": [dict(expr=n, entries=list(a), tile_mode=t, inner_tile_loop_directly_below=list(p))
                           for n, a, t, p in plan],
                  "tile_mode": "0 = untiled, 1 = every tile size of every single variable, 2 = also every pair of variables"}
    for n, a, t, p in plan:
        if ctx.only and n not in ctx.only:
            continue
        ctx.shards(shard_expr, (n, a, t, p, time.time() + (60 if q else 900)))
    if not ctx.only or "cancel" in ctx.only:
        ctx.shards(shard_cancel, time.time() + (90 if q else 600))
    two = [("dot-k4", (0, 1), "k"), ("rowsum-k3", (0, 1), "k")] if q else \
        [("dot-k4", (0, 1, 2), "k"), ("rowsum-k3", (0, 1), "k"), ("rowsum-k3", (0, 1), "m"), ("matvec-k3", (0, 1), "k")]
    for n, a, v in two:
        if ctx.only and n not in ctx.only and "twolevel" not in ctx.only:
            continue
        ctx.shards(shard_twolevel, (n, a, v, time.time() + (90 if q else 900)))
    ctx.bounds["tiled-twice"] = [dict(expr=n, entries=list(a), variable=v, note="every pair of tile sizes, with and without a "
                                      "re-ordering (inner tile rank on top) between the two tilings, every loop order over the "
                                      "final ranks") for n, a, v in two]
    ctx.bounds["cancel"] = "matmul 2x2x2 with A over {-1,0,1} and B over {0,1}, untiled, every loop order, both styles"
    ctx.bounds["division-tiling"] = ("tile_mode >= 1 also tiles through `tensor / parts` (parts = 1..extent) where the variable is the "
                                     "top rank of every operand holding it")
    ctx.bounds["shared-output-template"] = ("outer, matmul, elem2d (thorough: + matvec, rowsum): two kernels with every pair of loop "
                                            "orders take their output from one empty template by swizzleRanks")
    for n in (("outer", "matmul", "elem2d") if q else ("outer", "matmul", "elem2d", "matvec", "rowsum")):
        if ctx.only and n not in ctx.only and "template" not in ctx.only:
            continue
        ctx.shards(shard_template, (n, (0, 1)))

"""C15 - metrics collection is transparent, exact and session-isolated.

(a) E2 over kernels x inputs x registrations: every kernel of a C06 sub-family
    is run with collection off and with collection on for the stated subsets of a
    per-kernel menu of (rank, trace type) registrations; output content must be
    identical, Compute.numOps must equal the interpreter's own ledger of
    executed *, += and accumulations, Compute.numIters of every registered
    `iter` trace must equal the loop bodies executed at that rank.
(b) E1 over sessions: BFS whose transitions run a whole collection session
    from a menu; the state is the canonicalised set of Metrics class
    attributes; on every transition the session's dump, trace files and output
    must be byte-identical to the same session run from the pristine state."""
import copy
import glob
import itertools
import os
import time

from fibertree import Fiber, Tensor, Payload, Metrics
from fibertree.model import Compute

from mc import bfs, core
from mc.univ import mkfiber
from mc.kernel import EXPRS, Kernel, dense, make_inputs, nest, index_vars, all_values
from mc.props.c06 import shapes_for, programs

LEVEL = "model_checking"
RULE = ("(a) cases = (expression, operand valuation, loop order, tiling, style, registration subset) enumerated by nested "
        "loops; non-trivial = at least one leaf update executed; (b) BFS over sessions: states = canonical Metrics class "
        "attributes after a session, transitions = whole sessions, each compared with the same session run from the "
        "pristine state; distinct_nontrivial counts (a)'s non-trivial cases plus (b)'s distinct states")
ASSUMPTIONS = [
    "kernels are the mc/kernel.py idiom; operands are prepared (split / swizzled) before beginCollect, as kernels do",
    "the output tensor is created with a declared shape (the idiom in the library's examples; the populate iterator's "
    "insertion bookkeeping needs it while collecting)",
    "Metrics' state is exactly its class attributes (it is a class-level singleton); 'fresh interpreter state' = the "
    "attribute values captured at import",
]

SPEC = "mc.props.c15"

# ---------------------------------------------------------------------------
# pristine Metrics state

_ATTRS = [k for k, v in vars(Metrics).items()
          if not k.startswith("__") and not callable(v) and not isinstance(v, (classmethod, staticmethod))]
_PRISTINE = {k: copy.deepcopy(getattr(Metrics, k)) for k in _ATTRS}


def reset_pristine():
    for k, v in _PRISTINE.items():
        setattr(Metrics, k, copy.deepcopy(v))


def canon_metrics():
    out = []
    for k in _ATTRS:
        v = getattr(Metrics, k)
        if k == "rank_flatten":
            v = sorted(v.keys()) if isinstance(v, dict) else v
        elif k == "traces":
            v = {r: sorted(d.keys()) for r, d in v.items()} if isinstance(v, dict) else v
        elif k == "prefix" and isinstance(v, str):
            v = os.path.basename(v)        # the scratch directory differs per worker process
        out.append((k, core.jsonable(v)))
    return tuple((k, repr(v)) for k, v in out)


# ---------------------------------------------------------------------------
# (a) transparency and exactness

def menu_for(k):
    """Per-kernel menu of registrations (<= 5)."""
    lo = k.loop_order()
    shared = [r for r in lo if sum(1 for ranks in k.ins if r.split(".")[0] in ranks) > 1]
    outs = [r for r in lo if r.split(".")[0] in k.out]
    extra = []
    if shared:
        extra.append((shared[0], "intersect_0"))
    if outs:
        # the outermost output rank is the one a reduction-outer dataflow revisits
        extra.append((outs[0], "populate_write_0"))
        extra.append((outs[0], "populate_read_0"))
    menu = [(r, "iter") for r in lo[:5 - len(extra)]] + extra
    return menu[:5]


def _files(prefix, remove=True):
    out = {}
    for fn in sorted(glob.glob(prefix + "-*.csv")):
        with open(fn) as f:
            out[os.path.basename(fn)[len(os.path.basename(prefix)) + 1:]] = f.read()
        if remove:
            os.remove(fn)
    return out


def case_kernel(case):
    name, vals, order, tiles, style, mask = case
    out, ins = EXPRS[name]
    shapes = shapes_for(name)
    nests = [nest([shapes[v] for v in r], flat) for r, flat in zip(ins, vals)]
    feats = {"expr:" + name, "style:" + style}
    if tiles:
        feats.add("tiled")
    res = []
    prefix = os.path.join(core.scratch(), "c15")
    try:
        # collection off
        k0 = Kernel(out, ins, order, dict(tiles), style)
        k0.run(make_inputs(ins, nests, shapes), zshape=shapes)
        off = k0.zcontent()
        ledger0, bodies0 = dict(k0.ledger), dict(k0.bodies)
        # collection on
        k = Kernel(out, ins, order, dict(tiles), style)
        menu = menu_for(k)
        regs = [m for i, m in enumerate(menu) if mask >> i & 1]
        feats |= {"reg:" + t for _, t in regs}
        prepped, Z = k.prepare(make_inputs(ins, nests, shapes), zshape=shapes)
        Metrics.beginCollect(prefix)
        try:
            for r, t in regs:
                Metrics.trace(r, type_=t)
            k.execute(prepped, Z)
        finally:
            Metrics.endCollect()
        dump = Metrics.dump()
        files = _files(prefix)
        on = k.zcontent()
        if on != off:
            res.append(("transparency", "output-differs-with-collection-on", feats, off, on))
        if dict(k.ledger) != ledger0 or dict(k.bodies) != bodies0:
            res.append(("transparency", "executed-work-differs-with-collection-on", feats,
                        [ledger0, bodies0], [dict(k.ledger), dict(k.bodies)]))
        for op in ("mul", "add", "update"):
            got = Compute.numOps(dump, op) if "Compute" in dump else 0
            if got != k.ledger[op]:
                res.append(("numOps", "count-" + op, feats, k.ledger[op], got))
        for r, t in regs:
            if t != "iter":
                continue
            fn = "%s-iter.csv" % r
            if fn not in files:
                # a registered file trace is written at endCollect() even when its rank was never reached
                # (an empty file: Compute.numIters reports 0 for it)
                res.append(("numIters", "trace-file-missing", feats | {"rank:" + r} |
                            ({"rank_never_reached"} if k.bodies[r] == 0 else set()), k.bodies[r], None))
                continue
            with open(prefix + "-tmp.csv", "w") as f:
                f.write(files[fn])
            n = Compute.numIters(prefix + "-tmp.csv")
            os.remove(prefix + "-tmp.csv")
            if n != k.bodies[r]:
                res.append(("numIters", "iteration-count", feats | {"rank-depth:%d" % k.loop_order().index(r)},
                            k.bodies[r], n))
        if k.ledger["update"]:
            core.CUR.nt("kernel")
        core.CUR.path("regs=%d" % len(regs))
    except Exception as ex:
        if Metrics.isCollecting():
            try:
                Metrics.endCollect()
            except Exception:
                Metrics.collecting = False
        _files(prefix)
        res.append(("kernel-under-collection", "exception:" + type(ex).__name__,
                    feats | {"site:" + core.exc_site(ex)}, None, core.tb_tail(ex)))
    return res


def _tensor_from_spec(spec, ranks, name):
    """Operand with explicitly stored defaults / empty sub-fibers (mutation leaves
    these behind; fromUncompressed never produces them)."""
    from mc.univ import mktree
    d = len(ranks)
    root = mktree(spec, d, tag=0) if d > 1 else mktree(spec, 1, tag=0)
    return Tensor.fromFiber(list(ranks), root, shape=[2] * d, name=name)


def case_explicit(case):
    name, specs, order, style = case
    out, ins = EXPRS[name]
    shapes = {v: 2 for v in index_vars(ins)}
    feats = {"expr:" + name, "style:" + style, "explicit-operands"}
    res = []
    prefix = os.path.join(core.scratch(), "c15e")

    def inputs():
        return [_tensor_from_spec(sp, r, "ABC"[i]) for i, (sp, r) in enumerate(zip(specs, ins))]
    try:
        k0 = Kernel(out, ins, order, {}, style)
        k0.run(inputs(), zshape=shapes)
        off = k0.zcontent()
        k = Kernel(out, ins, order, {}, style)
        regs = [(r, "iter") for r in k.loop_order()]
        prepped, Z = k.prepare(inputs(), zshape=shapes)
        Metrics.beginCollect(prefix)
        try:
            for r, t in regs:
                Metrics.trace(r, type_=t)
            k.execute(prepped, Z)
        finally:
            Metrics.endCollect()
        dump = Metrics.dump()
        files = _files(prefix)
        if k.zcontent() != off:
            res.append(("transparency", "output-differs-with-collection-on", feats, off, k.zcontent()))
        for op in ("mul", "add", "update"):
            got = Compute.numOps(dump, op) if "Compute" in dump else 0
            if got != k.ledger[op]:
                res.append(("numOps", "count-" + op, feats, k.ledger[op], got))
        for r, t in regs:
            fn = "%s-iter.csv" % r
            if fn not in files:
                res.append(("numIters", "trace-file-missing", feats |
                            ({"rank_never_reached"} if k.bodies[r] == 0 else set()), k.bodies[r], None))
                continue
            with open(prefix + "-tmp.csv", "w") as f:
                f.write(files[fn])
            n = Compute.numIters(prefix + "-tmp.csv")
            os.remove(prefix + "-tmp.csv")
            if n != k.bodies[r]:
                res.append(("numIters", "iteration-count", feats | {"rank-depth:%d" % k.loop_order().index(r)},
                            k.bodies[r], n))
        if k.ledger["update"]:
            core.CUR.nt("explicit")
    except Exception as ex:
        if Metrics.isCollecting():
            try:
                Metrics.endCollect()
            except Exception:
                Metrics.collecting = False
        _files(prefix)
        res.append(("kernel-under-collection", "exception:" + type(ex).__name__,
                    feats | {"site:" + core.exc_site(ex)}, None, core.tb_tail(ex)))
    return res


def shard_explicit(acc, shard, nshards, params):
    from mc.univ import t2, f1
    name = params
    out, ins = EXPRS[name]
    allv = index_vars(ins)
    styles = ("two-finger", "leader-follower") if len(ins) > 1 else ("two-finger",)
    unis = [t2(2, 2, "-01") if len(r) == 2 else f1(2, "-01") for r in ins]

    def gen():
        for specs in itertools.product(*unis):
            for order in itertools.permutations(allv):
                # operands are not swizzled here: keep the loop order concordant with the stored rank order
                if any([v for v in order if v in r] != list(r) for r in ins):
                    continue
                for style in styles:
                    yield (name, specs, order, style)
    core.drive(acc, "explicit", case_explicit, gen(), shard, nshards,
               family="%s[operands with explicit defaults / empty sub-fibers]" % name)


def case_assign_leaf(case):
    """Z_m = A_m + B_m in the union idiom: z_m << (a_m | b_m), z_ref <<= a_val + b_val.
    Every loop body executes one + and one in-place update (<<=)."""
    av, bv = case
    n = len(av)
    out = []
    feats = {"idiom:union-assign"}
    if any(x + y == 0 and (x or y) for x, y in zip(av, bv)):
        feats.add("cancelling_sum")
    prefix = os.path.join(core.scratch(), "c15a")

    def kernel():
        A = Tensor.fromUncompressed(["M"], list(av), shape=[n], name="A")
        B = Tensor.fromUncompressed(["M"], list(bv), shape=[n], name="B")
        Z = Tensor(rank_ids=["M"], shape=[n], name="Z")
        bodies = 0
        for m, (z_ref, (mask, a_val, b_val)) in Z.getRoot() << (A.getRoot() | B.getRoot()):
            z_ref <<= a_val + b_val
            bodies += 1
        from mc.obs import content
        return content(Z), bodies
    try:
        off, bodies0 = kernel()
        exp = {(i,): x + y for i, (x, y) in enumerate(zip(av, bv)) if x + y != 0}
        if off != exp:
            out.append(("kernel", "result-differs-from-dense", feats, exp, off))
        Metrics.beginCollect(prefix)
        try:
            Metrics.trace("M", type_="iter")
            on, bodies = kernel()
        finally:
            Metrics.endCollect()
        dump = Metrics.dump()
        files = _files(prefix)
        if on != off or bodies != bodies0:
            out.append(("transparency", "output-differs-with-collection-on", feats, off, on))
        for op, want in (("add", bodies), ("update", bodies), ("mul", 0)):
            got = Compute.numOps(dump, op) if "Compute" in dump else 0
            if got != want:
                out.append(("numOps", "count-" + op, feats, want, got))
        if "M-iter.csv" in files:
            with open(prefix + "-tmp.csv", "w") as f:
                f.write(files["M-iter.csv"])
            n_rows = Compute.numIters(prefix + "-tmp.csv")
            os.remove(prefix + "-tmp.csv")
            if n_rows != bodies:
                out.append(("numIters", "iteration-count", feats, bodies, n_rows))
        else:
            out.append(("numIters", "trace-file-missing", feats, bodies, None))
        if bodies:
            core.CUR.nt("assign-leaf")
    except Exception as ex:
        if Metrics.isCollecting():
            try:
                Metrics.endCollect()
            except Exception:
                Metrics.collecting = False
        _files(prefix)
        out.append(("kernel-under-collection", "exception:" + type(ex).__name__,
                    feats | {"site:" + core.exc_site(ex)}, None, core.tb_tail(ex)))
    return out


def shard_assign_leaf(acc, shard, nshards, params):
    n, alphabet = params
    u = list(itertools.product(alphabet, repeat=n))
    core.drive(acc, "assign_leaf", case_assign_leaf, ((a, b) for a in u for b in u), shard, nshards,
               family="union-assign[N=%d,entries=%s]" % (n, list(alphabet)))


def shard_cancel(acc, shard, nshards, params):
    """matmul with cancelling products: A over {-1,0,1}, B over {0,1}; every loop order, two-finger;
    registrations: none, all, each single one."""
    name = "matmul"
    out, ins = EXPRS[name]
    shapes = shapes_for(name)
    orders = list(itertools.permutations(index_vars(ins)))

    def gen():
        for a in all_values(ins[0], shapes, (-1, 0, 1)):
            for b in all_values(ins[1], shapes, (0, 1)):
                for order in orders:
                    nmenu = len(menu_for(Kernel(out, ins, order, {}, "two-finger")))
                    for mask in sorted(set([0, (1 << nmenu) - 1] + [1 << i for i in range(nmenu)])):
                        yield (name, (a, b), order, (), "two-finger", mask)
    core.drive(acc, "kernel", case_kernel, gen(), shard, nshards,
               family="matmul[A in {-1,0,1}, B in {0,1}: cancelling partial sums]", deadline=params)


def shard_kernels(acc, shard, nshards, params):
    name, alphabet, tile_mode, masks, deadline = params
    out, ins = EXPRS[name]
    shapes = shapes_for(name)
    progs = [p for p in programs(name, tile_mode, (False,))]

    def gen():
        for vals in itertools.product(*[list(all_values(r, shapes, alphabet)) for r in ins]):
            for (order, tiles, style, pl) in progs:
                nmenu = len(menu_for(Kernel(out, ins, order, dict(tiles), style)))
                for mask in (range(1 << nmenu) if masks == "all" else
                             sorted(set([0, (1 << nmenu) - 1] + [1 << i for i in range(nmenu)]))):
                    yield (name, vals, order, tiles, style, mask)
    core.drive(acc, "kernel", case_kernel, gen(), shard, nshards,
               family="%s[entries=%s,tile_mode=%d,registrations=%s]" % (name, list(alphabet), tile_mode, masks),
               deadline=deadline)


# ---------------------------------------------------------------------------
# (b) sessions

A_ = [[1, 0, 2, 0], [0, 0, 0, 0], [0, 3, 4, 5]]
B_ = [[1, 1], [0, 2], [3, 0], [0, 0]]
V_ = [1, 1, 0, 1]


def _s_matvec(prefix, traces, thr=None, abandon=False, consumable=False, A=None):
    At = Tensor.fromUncompressed(["M", "K"], A or A_, shape=[3, 4])
    Bt = Tensor.fromUncompressed(["K"], V_, shape=[4])
    Z = Tensor(rank_ids=["M"], shape=[3])
    Metrics.beginCollect(prefix)
    consumed = []
    try:
        if thr:
            Metrics.setNumCachedUses(thr)
        for r, t in traces:
            Metrics.trace(r, type_=t, consumable=consumable)
        n = 0
        for m, (z, a_k) in Z.getRoot() << At.getRoot():
            for k, (a, b) in a_k & Bt.getRoot():
                z += a * b
                n += 1
                if abandon and n == 2:
                    break
            if abandon and n == 2:
                break
        if consumable:
            for r, t in traces:
                consumed.append(Metrics.consumeTrace(r, t))
    finally:
        Metrics.endCollect()
    return (repr(Z.getRoot()), consumed)


def _s_matmul(prefix, traces, thr=None):
    At = Tensor.fromUncompressed(["M", "K"], A_, shape=[3, 4])
    Bt = Tensor.fromUncompressed(["K", "N"], B_, shape=[4, 2])
    Z = Tensor(rank_ids=["M", "N"], shape=[3, 2])
    Metrics.beginCollect(prefix)
    try:
        if thr:
            Metrics.setNumCachedUses(thr)
        for r, t in traces:
            Metrics.trace(r, type_=t)
        for m, (z_n, a_k) in Z.getRoot() << At.getRoot():
            for k, (a, b_n) in a_k & Bt.getRoot():
                for n, (z, b) in z_n << b_n:
                    z += a * b
    finally:
        Metrics.endCollect()
    return (repr(Z.getRoot()), [])


def _s_project(prefix):
    f = Fiber([2, 4, 6, 8], [4, 8, 12, 16])
    f.getRankAttrs().setId("K")
    Metrics.beginCollect(prefix)
    try:
        Metrics.trace("K", "project_0")
        Metrics.matchRanks("K", "M")
        out = [(m, p.value) for m, p in f.project(trans_fn=lambda k: k + 3, rank_id="M", start_pos=1)]
    finally:
        Metrics.endCollect()
    return (repr(out), [])


def _s_regonly(prefix):
    Metrics.beginCollect(prefix)
    try:
        Metrics.trace("M")
        Metrics.trace("Q", "intersect_0")
        Metrics.registerRank("Q")
        Metrics.matchRanks("Q", "R")
        Metrics.associateShape("Q", (2, 2))
        Metrics.incCount("Line 1", "custom", 3)
    finally:
        Metrics.endCollect()
    return ("", [])


def _s_interrupted(prefix):
    """A session that is never ended (an exception escaped the kernel): whatever
    it registered must not leak into the next session."""
    At = Tensor.fromUncompressed(["M", "K"], A_, shape=[3, 4])
    Bt = Tensor.fromUncompressed(["K", "N"], B_, shape=[4, 2])
    Z = Tensor(rank_ids=["M", "N"], shape=[3, 2])
    Metrics.beginCollect(prefix)
    Metrics.trace("N", type_="populate_write_0")
    Metrics.trace("K", type_="intersect_0")
    Metrics.trace("M", type_="iter", consumable=True)
    n = 0
    for m, (z_n, a_k) in Z.getRoot() << At.getRoot():
        for k, (a, b_n) in a_k & Bt.getRoot():
            for nn, (z, b) in z_n << b_n:
                z += a * b
                n += 1
            if n >= 2:
                return ("interrupted", [])       # no endCollect
    return ("interrupted", [])


def _s_unconsumed(prefix):
    """endCollect() with an unconsumed consumable trace raises (documented
    assertion): the session stays half-open."""
    f = Fiber([0, 2], [1, 1])
    f.getRankAttrs().setId("K")
    Metrics.beginCollect(prefix)
    Metrics.trace("K", type_="iter", consumable=True)
    for _ in f:
        pass
    try:
        Metrics.endCollect()
    except AssertionError:
        pass
    return ("unconsumed", [])


ALL_MV = [("M", "iter"), ("K", "iter"), ("K", "intersect_0"), ("K", "intersect_1"), ("M", "populate_1"),
          ("M", "populate_write_0")]
SESSIONS = [
    ("matvec-all", lambda p: _s_matvec(p, ALL_MV)),
    ("matvec-none", lambda p: _s_matvec(p, [])),
    # an all-zero A: the K loop is never reached, its registered traces never start
    ("matvec-all-empty-A", lambda p: _s_matvec(p, ALL_MV, A=[[0] * 4] * 3)),
    ("matvec-thr2", lambda p: _s_matvec(p, [("K", "iter"), ("K", "intersect_1")], thr=2)),
    ("matvec-abandoned", lambda p: _s_matvec(p, [("M", "iter"), ("K", "iter")], abandon=True)),
    ("matvec-consumable", lambda p: _s_matvec(p, [("K", "iter"), ("K", "intersect_0")], consumable=True)),
    ("matmul", lambda p: _s_matmul(p, [("N", "iter"), ("N", "populate_read_0"), ("N", "populate_write_0"),
                                       ("K", "intersect_0")])),
    ("matmul-thr3", lambda p: _s_matmul(p, [("M", "iter"), ("K", "iter"), ("N", "iter")], thr=3)),
    ("project", _s_project),
    ("register-only", _s_regonly),
    ("interrupted-never-ended", _s_interrupted),
    ("unconsumed-consumable", _s_unconsumed),
]
DIRTY = ("interrupted-never-ended", "unconsumed-consumable")     # sessions that leave collection open by design


def _run_session(i):
    prefix = os.path.join(core.scratch(), "c15s")
    try:
        out = SESSIONS[i][1](prefix)
        err = None
    except Exception as ex:
        out = None
        err = core.tb_tail(ex)
        if Metrics.isCollecting():
            try:
                Metrics.endCollect()
            except Exception:
                Metrics.collecting = False
    _LAST["live"] = Metrics.dump()          # the object handed to the caller (kept across later sessions)
    dump = copy.deepcopy(_LAST["live"])
    files = _files(prefix, remove=not _MODE.get("keepfiles"))
    _LAST["files"] = files
    if SESSIONS[i][0] in DIRTY:
        # what a half-open session reports is not compared: only what it does to later sessions
        return (None, None, SESSIONS[i][0], None)
    return (dump, files, out, err)


_LAST = {}
# keepfiles: the sessions of one history share the trace prefix AND the files of earlier sessions stay on disk (what a
# user re-running kernels in one directory has); a session is then compared on the files of the traces it registers
_MODE = {}


class St:
    def __init__(self):
        self.kept = []          # (report object of an earlier session, its value when it was handed out, session)


_BASE = {}


def build(init):
    S = St()
    _MODE["keepfiles"] = False
    _files(os.path.join(core.scratch(), "c15s"))
    if not _BASE:
        for i in range(len(SESSIONS)):
            reset_pristine()
            _BASE[i] = _run_session(i)
    reset_pristine()
    _MODE["keepfiles"] = len(init) > 1 and init[1] == "keepfiles"
    _LAST["files"] = {}
    return S


def ops(S):
    return [("session", i) for i in range(len(SESSIONS))]


def step(S, op):
    i = op[1]
    got = _run_session(i)
    base = _BASE[i]
    out = []
    name = SESSIONS[i][0]
    # a report handed out by an earlier session is the caller's: later sessions may not rewrite it
    for obj, snap, nm in S.kept:
        if obj != snap:
            out.append(("session-isolation", "earlier-report-rewritten-by-later-session",
                        {"later:" + name}, snap, copy.deepcopy(obj)))
            break
    S.kept = [(o, sn, nm) for o, sn, nm in S.kept if o == sn][-2:]
    if name not in DIRTY:
        S.kept.append((_LAST["live"], copy.deepcopy(_LAST["live"]), name))
    if base[3] is not None:
        # the session itself cannot run from the pristine state: nothing to compare
        core.CUR.path("session-fails-from-pristine:" + name)
        return out
    if _MODE.get("keepfiles") and got[1] is not None and base[1] is not None:
        # files of traces this session does not register are none of its business
        got = (got[0], {k: v for k, v in got[1].items() if k in base[1]}, got[2], got[3])
    for idx, what in ((0, "dump"), (1, "trace-files"), (2, "output"), (3, "error")):
        if got[idx] != base[idx]:
            out.append(("session-isolation", what + "-differs-after-earlier-sessions", {"session:" + name},
                        base[idx], got[idx]))
    return out


def key(S):
    if _MODE.get("keepfiles"):
        return (canon_metrics(), tuple(sorted(_LAST.get("files", {}).items())))
    return canon_metrics()


# ---------------------------------------------------------------------------
# (c) operand kinds: an arithmetic operation executed on boxes is counted the same whether its other operand is a
# box or a plain number (the operation executed is the same), and k repetitions count k times

import operator as _op

OPKINDS = {
    "*": _op.mul, "+": _op.add,
    "*=": _op.imul, "+=": _op.iadd,
}


def _count_session(fn, reps):
    Metrics.beginCollect()
    try:
        for _ in range(reps):
            fn()
    finally:
        Metrics.endCollect()
    d = Metrics.dump()
    return dict(d.get("Compute", {}))


def case_opkinds(case):
    sym, a, b, reps = case
    fn = OPKINDS[sym]
    out = []
    feats = {"op:" + sym, "left_zero" if a == 0 else "left_nonzero", "right_zero" if b == 0 else "right_nonzero"}
    try:
        forms = {
            "box.box": lambda: fn(Payload(a), Payload(b)),
            "box.scalar": lambda: fn(Payload(a), b),
        }
        if sym in ("*", "+"):
            forms["scalar.box"] = lambda: fn(a, Payload(b))
        counts = {k: _count_session(f, reps) for k, f in forms.items()}
        base = counts["box.box"]
        for k, c in counts.items():
            if c != base:
                out.append(("numOps", "count-depends-on-operand-kind", feats | {"form:" + k}, base, c))
        one = _count_session(forms["box.box"], 1)
        if {k: v * reps for k, v in one.items()} != base:
            out.append(("numOps", "count-not-proportional-to-repetitions", feats, {k: v * reps for k, v in one.items()}, base))
        if not base:
            out.append(("numOps", "operation-not-counted", feats, "some Compute counter", base))
        core.CUR.nt("opkinds")
        core.CUR.outcome((sym, tuple(sorted(base.items()))))
    except Exception as ex:
        if Metrics.isCollecting():
            try:
                Metrics.endCollect()
            except Exception:
                Metrics.collecting = False
        out.append(("numOps", "exception:" + type(ex).__name__, feats | {"site:" + core.exc_site(ex)}, None,
                    core.tb_tail(ex)))
    return out



# ---------------------------------------------------------------------------
# (d) operand tensors kept across sessions: a tensor that was walked in an earlier session - and possibly renamed or
# edited since - gives the traces and counts a freshly built equal tensor gives

def _walk_session(T, prefix):
    ids = T.getRankIds()
    Metrics.beginCollect(prefix)
    bodies = [0, 0]
    total = 0
    try:
        for r in ids:
            Metrics.trace(r)
        for m, a_k in T.getRoot():
            bodies[0] += 1
            for k, v in a_k:
                bodies[1] += 1
                total = total + (v * 1).value
    finally:
        Metrics.endCollect()
    files = _files(prefix)
    return files, bodies, total, copy.deepcopy(Metrics.dump())


def case_kept(case):
    nest_, edit = case
    out = []
    feats = {"operand_kept_across_sessions", "edit:" + edit}
    prefix = os.path.join(core.scratch(), "c15k")
    try:
        reset_pristine()
        T = Tensor.fromUncompressed(["M", "K"], [list(r) for r in nest_], shape=[len(nest_), len(nest_[0])])
        first = _walk_session(T, prefix)
        new_nest = [list(r) for r in nest_]
        ids = ["M", "K"]
        if edit == "rename":
            ids = ["P", "Q"]
            T.setRankIds(ids)
        elif edit == "write":
            ref = T.getPayloadRef(0, 1)
            ref <<= 9
            new_nest[0][1] = 9
        got = _walk_session(T, prefix)
        reset_pristine()
        F = Tensor.fromUncompressed(ids, new_nest, shape=[len(nest_), len(nest_[0])])
        exp = _walk_session(F, prefix)
        for idx, what in ((0, "trace-files"), (1, "loop-bodies"), (2, "result"), (3, "dump")):
            if got[idx] != exp[idx]:
                out.append(("kept-operand", what + "-differ-from-a-fresh-equal-tensor", feats, exp[idx], got[idx]))
        for rid, n in zip(ids, got[1]):
            with open(prefix + "-tmp.csv", "w") as f:
                f.write(got[0].get(rid + "-iter.csv", ""))
            ni = Compute.numIters(prefix + "-tmp.csv")
            os.remove(prefix + "-tmp.csv")
            if ni != n:
                out.append(("kept-operand", "numIters", feats | {"rank:" + rid}, n, ni))
        core.CUR.nt("kept")
    except Exception as ex:
        out.append(("kept-operand", "exception:" + type(ex).__name__, feats | {"site:" + core.exc_site(ex)}, None, core.tb_tail(ex)))
        if Metrics.isCollecting():
            try:
                Metrics.endCollect()
            except Exception:
                pass
    finally:
        reset_pristine()
    return out


def shard_kept(acc, shard, nshards, params):
    rows = list(itertools.product((0, 1), repeat=2))
    cases = [((r1, r2), e) for r1 in rows for r2 in rows for e in ("none", "rename", "write")]
    core.drive(acc, "kept", case_kept, cases, shard, nshards, family="kept-operand[2x2 nests x {none, rename, write}]")


def shard_opkinds(acc, shard, nshards, params):
    cases = ((sym, a, b, reps) for sym in OPKINDS for a in (0, 2, 0.5) for b in (0, 3, 1.5) for reps in (1, 3))
    core.drive(acc, "opkinds", case_opkinds, cases, shard, nshards, family="opkinds[* + *= += x box/scalar]")


# ---------------------------------------------------------------------------
# (d) partitioned populate: one output fiber is populated from successive operand partitions, each populate resuming
# from the output's saved position (z_m.__lshift__(part, start_pos=...)); the outcome (error or not, saved
# positions, content) may not depend on whether metrics are collected nor on which traces are registered

PP_SUBSETS = [[], ["iter"], ["populate_1"], ["populate_write_0"], ["populate_read_0"],
              ["iter", "populate_read_0", "populate_write_0"]]


def _pp_kernel(zc, parts, n, collect, traces, prefix):
    z = Tensor.fromFiber(["M"], mkfiber(zc, 1), shape=[n])
    ps = [Tensor.fromFiber(["M"], mkfiber(pc, 2 + i), shape=[n]) for i, pc in enumerate(parts)]
    z_m = z.getRoot()
    if collect:
        Metrics.beginCollect(prefix)
        for t in traces:
            Metrics.trace("M", t)
    saved, err = [], None
    try:
        pos = 0
        for part in ps:
            for m, (z_ref, a_val) in z_m.__lshift__(part.getRoot(), start_pos=pos):
                z_ref += a_val
            pos = z_m.getSavedPos()
            saved.append(pos)
    except Exception as ex:
        err = type(ex).__name__
    finally:
        if collect:
            try:
                Metrics.endCollect()
            except Exception:
                Metrics.collecting = False
    return err, saved, list(zip(z_m.getCoords(), [p.value for p in z_m.getPayloads()]))


def case_partpop(case):
    zc, p1, p2 = case
    n = len(zc)
    out = []
    prefix = os.path.join(core.scratch(), "c15pp")
    feats = {"partitioned_populate_with_start_pos"}
    if any(x != '-' for x in zc):
        feats.add("destination_not_empty")
    ref = _pp_kernel(zc, (p1, p2), n, False, [], prefix)
    if ref[0] is not None:
        core.CUR.path("partpop:reference-run-raises:" + ref[0])     # outside the idiom's domain: not judged
        return out
    for traces in PP_SUBSETS:
        got = _pp_kernel(zc, (p1, p2), n, True, traces, prefix)
        _files(prefix)
        if got != ref:
            out.append(("transparency", "outcome-differs-with-collection-on",
                        feats | {"traces:" + ("+".join(traces) or "none")}, ref, got))
    core.CUR.nt("partpop")
    return out


def shard_partpop(acc, shard, nshards, params):
    n, = params
    from mc.univ import f1 as _f1
    u = [c for c in _f1(n, "-v")]

    def gen():
        for zc in u:
            for p1 in u:
                last = max([i for i, x in enumerate(p1) if x != '-'] or [0])
                for p2 in u:
                    # the next partition starts at or after the coordinate the previous one ended on
                    if all(i >= last for i, x in enumerate(p2) if x != '-'):
                        yield (zc, p1, p2)
    core.drive(acc, "partpop", case_partpop, gen(), shard, nshards, family="partitioned-populate[N=%d]" % n)


# ---------------------------------------------------------------------------
# (e) lazy fibers across a session boundary: what a co-iteration records (and whether it works at all) depends on
# the session it is ITERATED in, not on the one it was built in

def case_lazyboundary(case):
    ac, bc = case
    out = []
    prefix = os.path.join(core.scratch(), "c15lb")
    feats = {"lazy_fiber_crosses_session_boundary"}

    def mk():
        a, b = mkfiber(ac, 1), mkfiber(bc, 2)
        a.getRankAttrs().setId("K")
        b.getRankAttrs().setId("K")
        return a, b

    def session(built_outside):
        a, b = mk()
        lz = (a & b) if built_outside else None
        Metrics.beginCollect(prefix)
        try:
            for t in ("iter", "intersect_0", "intersect_1"):
                Metrics.trace("K", t)
            if lz is None:
                lz = a & b
            got = [k for k, _ in lz]
        finally:
            Metrics.endCollect()
        return got, _files(prefix)
    try:
        a, b = mk()
        ref = [k for k, _ in a & b]
        g0, f0 = session(False)
        g1, f1_ = session(True)
        if g0 != ref or g1 != ref:
            out.append(("transparency", "output-differs-with-collection-on", feats, ref, [g0, g1]))
        if f1_ != f0:
            out.append(("traces", "rows-depend-on-where-the-lazy-fiber-was-built", feats | {"built:before-the-session"},
                        f0, f1_))
        # built inside a session, iterated after it ended
        a, b = mk()
        Metrics.beginCollect(prefix)
        try:
            Metrics.trace("K", "iter")
            lz = a & b
        finally:
            Metrics.endCollect()
        _files(prefix)
        try:
            g2 = [k for k, _ in lz]
            if g2 != ref:
                out.append(("transparency", "output-differs-after-the-session", feats | {"built:inside-a-session"},
                            ref, g2))
        except Exception as ex:
            out.append(("transparency", "exception:" + type(ex).__name__,
                        feats | {"built:inside-a-session", "iterated:after-endCollect", "site:" + core.exc_site(ex)},
                        ref, core.tb_tail(ex)))
        core.CUR.nt("lazyboundary")
    except Exception as ex:
        if Metrics.isCollecting():
            try:
                Metrics.endCollect()
            except Exception:
                Metrics.collecting = False
        _files(prefix)
        out.append(("transparency", "exception:" + type(ex).__name__, feats | {"site:" + core.exc_site(ex)}, None,
                    core.tb_tail(ex)))
    return out


def shard_lazyboundary(acc, shard, nshards, params):
    from mc.univ import f1 as _f1
    u = _f1(params)
    core.drive(acc, "lazyboundary", case_lazyboundary, ((a, b) for a in u for b in u), shard, nshards,
               family="lazy-across-session-boundary[pairs of F1(%d)]" % params)


CASES = {"kept": case_kept, "lazyboundary": case_lazyboundary, "partpop": case_partpop, "opkinds": case_opkinds, "history": bfs.replay_case, "kernel": case_kernel, "explicit": case_explicit,
         "assign_leaf": case_assign_leaf}


def run(ctx):
    q = ctx.quick
    if q:
        plan = [("dot", (0, 1), 1, "all"), ("elem", (0, 1), 1, "all"), ("matvec", (0, 1), 1, "all"),
                ("rowsum", (0, 1), 1, "all"), ("outer", (0, 1), 0, "all"), ("matmul", (0, 1), 0, "some"),
                ("dot", (-1, 0, 1, 2), 0, "some")]
    else:
        plan = [("dot", (-1, 0, 1, 2), 1, "all"), ("elem", (0, 1, 2), 1, "all"), ("matvec", (0, 1, 2), 1, "all"),
                ("rowsum", (0, 1, 2), 1, "all"), ("sumall", (0, 1, 2), 1, "all"), ("colsum", (0, 1, 2), 1, "all"),
                ("outer", (0, 1, 2), 1, "all"), ("elem2d", (0, 1), 1, "all"), ("elem3", (0, 1), 1, "some"),
                ("matmul", (0, 1), 1, "all"), ("matmul-scale", (0, 1), 0, "some")]
    ctx.bounds = {"kernels": [dict(expr=n, entries=list(a), tile_mode=t, registration_subsets=m) for n, a, t, m in plan],
                  "registration_subsets": "all = every subset of the per-kernel menu (<=5 entries); some = none, all, each single one"}
    if not ctx.only or "kernel" in ctx.only:
        for n, a, t, m in plan:
            ctx.shards(shard_kernels, (n, a, t, m, time.time() + (90 if q else 900)))
    if not ctx.only or "explicit" in ctx.only:
        for n in ("rowsum", "sumall", "colsum", "matvec", "elem"):
            ctx.shards(shard_explicit, n)
        ctx.bounds["explicit-operands"] = ("rowsum, sumall, colsum, matvec, elem over operand trees of T2(2,2,{-,0,1}) / F1(2,{-,0,1}) "
                                           "(explicit defaults, empty and zero-only sub-fibers), every concordant loop order, both "
                                           "styles, every loop rank traced")
    if not ctx.only or "cancel" in ctx.only:
        ctx.shards(shard_cancel, time.time() + (90 if q else 600))
        ctx.bounds["cancel"] = "matmul 2x2x2, A over {-1,0,1}, B over {0,1}, every loop order, registrations none / all / each single"
    if not ctx.only or "assign" in ctx.only:
        ctx.shards(shard_assign_leaf, (3, (-1, 0, 1, 2)) if q else (4, (-1, 0, 1, 2)))
        ctx.bounds["union-assign"] = "Z_m = A_m + B_m through z << (a | b) and z_ref <<= a + b, all vector pairs over {-1,0,1,2}"
    if not ctx.only or "lazyboundary" in ctx.only:
        ctx.shards(shard_lazyboundary, 3)
        ctx.bounds["lazy-across-session-boundary"] = ("a & b over pairs of F1(3): built before the session and iterated in it "
                                                      "(same trace files as built inside), built in a session and iterated "
                                                      "after it ended (works, same result)")
    if not ctx.only or "partpop" in ctx.only:
        ctx.shards(shard_partpop, (4 if q else 5,))
        ctx.bounds["partitioned-populate"] = ("z (F1(N,{-,v}), declared shape) populated from two successive partitions, the second "
                                              "starting at or after the first one's last coordinate, resuming at z's saved position; "
                                              "metrics off vs. on with trace subsets none / iter / populate_1 / populate_write_0 / "
                                              "populate_read_0 / three together; N=%d" % (4 if q else 5))
    if not ctx.only or "kept" in ctx.only:
        ctx.shards(shard_kept, None, nshards=4)
        ctx.bounds["kept-operand"] = ("every 2x2 nest over {0,1}: the tensor is walked fiber by fiber in one session, then left alone / renamed "
                                      "(setRankIds) / written through a reference, and walked again in a second session: trace files, loop "
                                      "bodies, numIters and counters equal those of a freshly built equal tensor")
    if not ctx.only or "opkinds" in ctx.only:
        ctx.shards(shard_opkinds, None, nshards=4)
        ctx.bounds["operand-kinds"] = ("* + *= += (subtraction is not a counted operation) with left operand a box over {0,2,0.5}, right operand {0,3,1.5} as box / plain "
                                       "number (and plain number on the left for * +), 1 and 3 repetitions: Compute counters equal "
                                       "across operand kinds, proportional to the repetitions, and not empty")
    if not ctx.only or "sessions" in ctx.only:
        info = bfs.explore(ctx.acc, SPEC, [("pristine",)], "sessions", max_depth=None,
                           deadline=time.time() + 300)
        ctx.bounds["sessions"] = dict(menu=[s[0] for s in SESSIONS], **info)
        info = bfs.explore(ctx.acc, SPEC, [("pristine", "keepfiles")], "sessions-shared-directory", max_depth=2 if q else 3,
                           deadline=time.time() + 300)
        ctx.bounds["sessions-shared-directory"] = dict(note="same menu; the trace files of earlier sessions stay on disk under the "
                                                            "same prefix (the files are part of the state)", **info)

"""C10 - value-returning operations never disturb or alias their operands;
read-only operations leave tree and rank lists untouched.

E2 over inputs with short E1 histories: for every tree of small universes and
every tensor configuration, (A) each value-returning operation is called with a
deep structural snapshot + object-identity set taken before, compared after,
and then every follow-up mutation of a fixed menu is applied to the result (the
operand must not change) and to the operand (the result must not change);
(B) each read-only operation is bracketed by snapshots, and renderings are
produced twice and compared byte for byte."""
import copy
import itertools
import os

from fibertree import Fiber, Tensor, Payload, CoordPayload
from fibertree import TensorImage, TreeImage, UncompressedImage
from fibertree.model import Format

from mc import core
from mc.obs import rawtree, rawtensor, rank_index_view, ids, mirror, freeze
from mc.univ import t2, t3, mktree, tree_features, RANK_IDS

LEVEL = "model_checking"
RULE = ("cases = (tree, tensor configuration, operation) enumerated by nested loops; for value-returning operations each case "
        "is extended by every follow-up mutation of a menu applied to the result and, separately, to the operand (histories "
        "of length 2); states/transitions count these history steps; non-trivial = the operand stores at least two leaves")
ASSUMPTIONS = [
    "the value-returning family is the property's list: all splits, swizzle/swap/flatten/unflatten/merge, tensor-level "
    "updateCoords/updatePayloads, fiber + and * (incl. reflected scalar forms), Fiber.copy, copy.deepcopy; nonEmpty() and "
    "slicing share payload boxes with their operand by design and are not in it",
    "Fiber.swapRanks / flattenRanks are driven on trees with content only (documented precondition)",
    "per-fiber saved positions are not part of 'the tree': reads with start_pos legitimately record them",
]


def _cfgs(depth, quick):
    fm = [("C",) * depth, ("U",) * depth]
    if not quick and depth == 2:
        fm += [("U", "C"), ("C", "U")]
    out = []
    for fmts in fm:
        for default in (0, 7):
            for shaped in (True, False):
                out.append((fmts, default, shaped))
    out.append((("C",) * depth, 0, "filled"))
    out.append((("U",) * depth, 7, "filled"))
    # a float leaf default (its box is a box like any other: a result may not hold the operand's)
    out.append((("C",) * depth, 0.5, True))
    out.append((("U",) * depth, 0.5, False))
    if quick:
        return [(("C",) * depth, 0, True), (("U",) * depth, 7, False), (("C",) * depth, 7, True)][:2 if depth == 3 else 3] + \
            ([(("C",) * depth, 0, "filled"), (("C",) * depth, 0.5, True)] if depth == 2 else [])
    return out


def mk(spec, depth, cfg):
    fmts, default, shaped = cfg
    ids_ = list(RANK_IDS[:depth])
    if shaped == "filled":
        # created empty without a declared shape and filled through references (the rank attributes hold no shape)
        t = Tensor(rank_ids=ids_, default=default, name="t")

        def fill(f, prefix):
            for c, p in zip(f.coords, f.payloads):
                if isinstance(p, Fiber):
                    t.getPayloadRef(*(prefix + (c,)))
                    fill(p, prefix + (c,))
                else:
                    ref = t.getPayloadRef(*(prefix + (c,)))
                    ref <<= p.value
        fill(mktree(spec, depth, tag=1, default=default), ())
    else:
        t = Tensor.fromFiber(ids_, mktree(spec, depth, tag=1, default=default),
                             shape=[2] * depth if shaped else None, default=default, name="t")
    for r, f in zip(ids_, fmts):
        t.setFormat(r, f)
    return t


def snap(x):
    if isinstance(x, Tensor):
        return ("T", rawtensor(x), rank_index_view(x))
    if isinstance(x, Fiber):
        ra = x.getRankAttrs()
        owners = []

        def _own(f):
            owners.append(id(f.getOwner()) if f.getOwner() is not None else None)
            for p_ in f.payloads:
                if isinstance(p_, Fiber):
                    _own(p_)
        _own(x)
        return ("F", rawtree(x), x._active_range, (freeze(ra._id), freeze(ra._shape), ra._fmt, repr(ra._default)),
                tuple(owners))
    if isinstance(x, Payload):
        return ("P", x.value)
    return ("?", repr(x))


# ---- family A: value-returning operations -----------------------------------

def _ops_tensor(depth):
    last = depth - 1
    O = {
        "splitUniform": lambda T: T.splitUniform(1),
        "splitNonUniform": lambda T: T.splitNonUniform([0, 1]),
        "splitEqual": lambda T: T.splitEqual(1),
        "splitUnEqual": lambda T: T.splitUnEqual([1]),
        "splitUniform-leaf": lambda T: T.splitUniform(1, depth=last),
        "splitEqual-leaf": lambda T: T.splitEqual(1, depth=last),
        "truediv": lambda T: T / 2, "floordiv": lambda T: T // 2,
        "swizzle-rev": lambda T: T.swizzleRanks(list(reversed(T.getRankIds()))),
        "swizzle-same": lambda T: T.swizzleRanks(list(T.getRankIds())),
        "swizzle-top2": lambda T: T.swizzleRanks([T.getRankIds()[1], T.getRankIds()[0]] + T.getRankIds()[2:]),
        "swap": lambda T: T.swapRanks(),
        "flatten": lambda T: T.flattenRanks(),
        "flatten-linear": lambda T: T.flattenRanks(coord_style="linear"),
        "flatten-pair": lambda T: T.flattenRanks(coord_style="pair"),
        "merge-absolute": lambda T: T.mergeRanks(coord_style="absolute"),
        "merge-relative": lambda T: T.mergeRanks(coord_style="relative"),
        "flatten-unflatten": lambda T: T.flattenRanks().unflattenRanks(),
        "unflatten-of-flat": lambda T: _unflat_only(T),
        "fiber-unflatten-of-flat": lambda T: _funflat_only(T),
        # a fiber whose top is unowned while the fibers below it belong to ranks (a fiber-level split at the leaf
        # rank): copying it may not detach those owners
        "copy-noowner-of-fiber-split": lambda T: _copy_of_split(T, last),
        # second transform of an already transformed operand (its rank ids / shapes are lists and tuples)
        "flatten-of-flat": lambda T: _second(T, lambda F: F.flattenRanks()),
        "merge-of-flat": lambda T: _second(T, lambda F: F.mergeRanks(coord_style="absolute")),
        "swizzle-of-flat": lambda T: _second(T, lambda F: F.swizzleRanks(list(reversed(F.getRankIds())))),
        "split-of-split": lambda T: _second(T, lambda F: F.splitUniform(1, depth=1), first=lambda T: T.splitUniform(1)),
        # a split of another rank of a tensor that holds a flattened rank (a list-valued rank id)
        "split-below-flat": lambda T: _second(T, lambda F: F.splitUniform(1, depth=1)),
        "split-above-flat": lambda T: _second(T, lambda F: F.splitEqual(1, depth=0), first=lambda T: T.flattenRanks(depth=1)),
        "flatten-of-split": lambda T: _second(T, lambda F: F.flattenRanks(coord_style="absolute"),
                                              first=lambda T: T.splitUniform(1)),
        # the same below the top rank (depth-3 trees)
        "flatten-d1": lambda T: T.flattenRanks(depth=1),
        "flatten-d1-linear": lambda T: T.flattenRanks(depth=1, coord_style="linear"),
        "merge-d1-absolute": lambda T: T.mergeRanks(depth=1, coord_style="absolute"),
        "merge-d1-relative": lambda T: T.mergeRanks(depth=1, coord_style="relative"),
        "swap-d1": lambda T: T.swapRanks(depth=1),
        "fiber-flatten-d1": lambda T: T.getRoot().flattenRanks(depth=1),
        "fiber-merge-d1": lambda T: T.getRoot().mergeRanks(depth=1, coord_style="absolute"),
        "fiber-swap-d1": lambda T: T.getRoot().swapRanks(depth=1),
        "updateCoords": lambda T: T.updateCoords(lambda i, c, p: c + 1),
        "updateCoords-leaf": lambda T: T.updateCoords(lambda i, c, p: c + 1, depth=last),
        "updatePayloads-leaf": lambda T: T.updatePayloads(lambda i, c, p: p * 2, depth=last),
        "deepcopy": lambda T: copy.deepcopy(T),
        "fiber-splitUniform": lambda T: T.getRoot().splitUniform(1),
        "fiber-splitUniform-leaf": lambda T: T.getRoot().splitUniform(1, depth=last),
        "fiber-splitEqual": lambda T: T.getRoot().splitEqual(1),
        "fiber-flatten": lambda T: T.getRoot().flattenRanks(),
        "fiber-merge": lambda T: T.getRoot().mergeRanks(coord_style="absolute"),
        "fiber-swap": lambda T: T.getRoot().swapRanks(),
        "fiber-copy": lambda T: T.getRoot().copy(),
        "fiber-copy-noowner": lambda T: T.getRoot().copy(preserve_owner=False),
        "fiber-deepcopy": lambda T: copy.deepcopy(T.getRoot()),
    }
    return O


class _Holder:
    pass


def _unflat_only(T):
    """unflattenRanks as the operation under test: its operand is a flattened copy."""
    F = T.flattenRanks()
    h = _Holder()
    h.operand = F
    h.result = F.unflattenRanks()
    return h


def _funflat_only(T):
    """Fiber.unflattenRanks as the operation under test: its operand is a flattened (unowned) fiber."""
    h = _Holder()
    h.operand = T.getRoot().flattenRanks()
    h.before = snap(h.operand)
    h.result = h.operand.unflattenRanks()
    return h


def _copy_of_split(T, last):
    h = _Holder()
    h.operand = T.getRoot().splitUniform(1, depth=last)
    h.before = snap(h.operand)
    h.result = h.operand.copy(preserve_owner=False)
    return h


def _second(T, op, first=None):
    """`op` applied to an already transformed tensor F = first(T) (default: flatten)."""
    F = first(T) if first else T.flattenRanks()
    h = _Holder()
    h.operand = F
    h.before = snap(F)
    h.result = op(F)
    return h


NEEDS_CONTENT = ("fiber-swap", "fiber-flatten", "fiber-merge", "swap", "flatten", "flatten-linear", "flatten-pair",
                 "merge-absolute", "merge-relative", "flatten-unflatten", "unflatten-of-flat", "fiber-unflatten-of-flat",
                 "flatten-of-flat",
                 "merge-of-flat", "swizzle-of-flat", "flatten-of-split", "copy-noowner-of-fiber-split", "split-below-flat",
                 "split-above-flat") + (
    "flatten-d1", "flatten-d1-linear", "merge-d1-absolute", "merge-d1-relative", "swap-d1", "fiber-flatten-d1",
    "fiber-merge-d1", "fiber-swap-d1")
D1 = ("flatten-d1", "flatten-d1-linear", "merge-d1-absolute", "merge-d1-relative", "swap-d1", "fiber-flatten-d1",
      "fiber-merge-d1", "fiber-swap-d1")
DEPTH3_ONLY = ("flatten-of-flat", "merge-of-flat", "swizzle-of-flat", "copy-noowner-of-fiber-split", "split-below-flat",
               "split-above-flat") + D1


def _leaf_ops():
    return {
        "leaf-fiber-add": lambda a, b: a + b, "leaf-fiber-mul": lambda a, b: a * b,
        "leaf-add-scalar": lambda a, b: a + 2, "leaf-mul-scalar": lambda a, b: a * 2,
        "leaf-radd-scalar": lambda a, b: 2 + a, "leaf-rmul-scalar": lambda a, b: 2 * a,
        "leaf-copy": lambda a, b: a.copy(), "leaf-deepcopy": lambda a, b: copy.deepcopy(a),
    }


def _leaves(x):
    root = x.getRoot() if isinstance(x, Tensor) else x
    out = []

    def rec(f):
        for p in f.payloads:
            if isinstance(p, Fiber):
                rec(p)
            elif isinstance(p, Payload) and not isinstance(p.value, tuple):
                out.append(p)
    if isinstance(root, Fiber):
        rec(root)
    return out


def _depth_of(root):
    d = 1
    f = root
    while f.payloads and isinstance(f.payloads[0], Fiber):
        f = f.payloads[0]
        d += 1
    return d


def _new_point(root):
    """A point that makes getPayloadRef create a path (coordinates of the kind
    the tree already uses); None if the tree gives no example."""
    pt = []
    f = root
    while True:
        if not f.coords:
            return None
        c = f.coords[-1]
        pt.append(c)
        p = f.payloads[-1]
        if not isinstance(p, Fiber):
            break
        f = p
    last = pt[-1]
    try:
        pt[-1] = tuple(x + 5 for x in last) if isinstance(last, tuple) else last + 5
    except TypeError:
        return None
    return tuple(pt)


MUTATIONS = ["write-leaves", "insert-point", "set-default", "set-format", "set-shape", "set-name", "clear",
             "populate"]


def mutate(x, m):
    """Apply follow-up mutation m to a tensor or fiber; returns False if it is
    not applicable to this object."""
    root = x.getRoot() if isinstance(x, Tensor) else x
    if not isinstance(root, Fiber):
        return False
    if m == "write-leaves":
        lv = _leaves(x)
        if not lv:
            return False
        for p in lv:
            p <<= 99
    elif m == "insert-point":
        pt = _new_point(root)
        if pt is None:
            return False
        r = root.getPayloadRef(*pt)
        r <<= 55
    elif m == "set-default":
        if isinstance(x, Tensor):
            x.setDefault(3)
        else:
            x._setDefault(3) if not (root.payloads and isinstance(root.payloads[0], Fiber)) else None
            if root.payloads and isinstance(root.payloads[0], Fiber):
                return False
    elif m == "set-format":
        if isinstance(x, Tensor):
            rid = x.getRankIds()[0]
            x.setFormat(rid, "U" if x.getFormat(rid) == "C" else "C")
        else:
            ra = root.getRankAttrs()
            ra.setFormat("U" if ra.getFormat() == "C" else "C")
    elif m == "set-shape":
        if isinstance(x, Tensor):
            sh = x.getShape()
            try:
                x.setShape([(s + 3) if isinstance(s, int) else s for s in sh])
            except Exception:
                return False
        else:
            root.getRankAttrs().setShape(17)
    elif m == "set-name":
        if isinstance(x, Tensor):
            x.setName("renamed")
            x.setColor("blue")
            x.setMutable(not x.isMutable())
        else:
            root.getRankAttrs().setId("Q")
    elif m == "clear":
        root.clear()
    elif m == "populate":
        d = _depth_of(root)
        if d != 1 or (root.coords and isinstance(root.coords[0], tuple)):
            return False
        for c, (zr, av) in root << Fiber([0, 1, 4], [7, 8, 9]):
            zr += av
    return True


def _check_pair(opname, make, get_operand, get_result, feats, out):
    """make() -> fresh (operand, result) each time (live objects are not copied)."""
    cur = core.CUR
    try:
        holder = make()
    except Exception as ex:
        cur.path("op-raised:%s:%s" % (opname, type(ex).__name__))
        return
    operand, result = get_operand(holder), get_result(holder)
    # aliasing
    a, b = ids(operand), ids(result)
    shared = sorted({type(a[i]).__name__ for i in a if i in b})
    if shared:
        out.append((opname, "result-shares-objects-with-operand", feats | {"shared:" + ",".join(shared)}, None, shared))
    cur.states += 1
    for side in ("result", "operand"):
        for m in MUTATIONS:
            try:
                holder = make()
            except Exception:
                return
            operand, result = get_operand(holder), get_result(holder)
            if side == "operand" and core.QUICK_HINT and m in ("set-format", "set-shape", "set-name", "populate"):
                continue
            target, other = (result, operand) if side == "result" else (operand, result)
            before = snap(other)
            try:
                ok = mutate(target, m)
            except Exception as ex:
                cur.path("mutation-raised:%s:%s" % (m, type(ex).__name__))
                ok = True
            if not ok:
                continue
            cur.transitions += 1
            cur.validated += 1
            if snap(other) != before:
                out.append((opname, "mutation-of-%s-visible-in-%s" % (side, "operand" if side == "result" else "result"),
                            feats | {"mutation:" + m}, before, snap(other)))


def case_value_returning(case):
    spec, depth, cfg, opname = case
    out = []
    feats = tree_features(spec, depth) | {"depth:%d" % depth, "fmt:" + "".join(cfg[0])}
    if cfg[1]:
        feats.add("nonzero_default")
    if not cfg[2]:
        feats.add("estimated_shape")
    elif cfg[2] == "filled":
        feats.add("built_empty_filled_by_reference")
    T = mk(spec, depth, cfg)
    if len(_leaves(T)) >= 2:
        core.CUR.nt("value-returning")
    leafops = _leaf_ops()
    if opname in leafops:
        if depth != 2:
            return out
        root = T.getRoot()
        if len(root.payloads) < 1:
            return out
        fn = leafops[opname]

        def make():
            t = mk(spec, depth, cfg)
            h = _Holder()
            h.T = t
            h.before = snap(t)
            a, b = t.getRoot().payloads[0], t.getRoot().payloads[-1]
            h.result = fn(a, b)
            h.operand = t
            return h
    else:
        fn = _OPS[depth][opname]
        if opname in NEEDS_CONTENT and not _leaves(T):
            return out
        if opname in DEPTH3_ONLY and depth < 3:
            return out

        def make():
            t = mk(spec, depth, cfg)
            h = _Holder()
            h.T = t
            h.before = snap(t)
            r = fn(t)
            if isinstance(r, _Holder):
                h.operand, h.result = r.operand, r.result
                h.T = r.operand
                h.before = getattr(r, "before", None)
            else:
                h.operand, h.result = t, r
            return h
    # 1. operand unchanged by the call itself
    try:
        h = make()
        if h.before is not None and snap(h.T) != h.before:
            out.append((opname, "operand-changed-by-call", feats, h.before, snap(h.T)))
        if isinstance(h.T, Tensor):
            m = mirror(h.T)
            if m:
                out.append((opname, "operand-rank-lists-after-call:" + m, feats, None, rank_index_view(h.T)))
    except Exception as ex:
        core.CUR.path("op-raised:%s:%s" % (opname, type(ex).__name__))
        # the operand must be intact even if the operation fails
        t = mk(spec, depth, cfg)
        b = snap(t)
        try:
            (leafops.get(opname) or _OPS[depth][opname])(*((t.getRoot().payloads[0], t.getRoot().payloads[-1])
                                                           if opname in leafops else (t,)))
        except Exception:
            pass
        if snap(t) != b:
            out.append((opname, "operand-changed-by-failing-call", feats | {"raised:" + type(ex).__name__}, b, snap(t)))
        return out
    _check_pair(opname, make, lambda h: h.operand, lambda h: h.result, feats, out)
    return out


_OPS = {2: _ops_tensor(2), 3: _ops_tensor(3)}


def shard_value(acc, shard, nshards, params):
    depth, quick, wmax = params
    core.CUR = acc
    specs = t2(2, 2) if depth == 2 else [s for s in t3(2, 2, 2) if _w3(s) <= wmax]
    names = list(_OPS[depth]) + (list(_leaf_ops()) if depth == 2 else [])

    def gen():
        for cfg in _cfgs(depth, quick):
            for spec in specs:
                for n in names:
                    yield (spec, depth, cfg, n)
    core.drive(acc, "value_returning", case_value_returning, gen(), shard, nshards,
               family="value-returning[depth=%d]" % depth)


def _w3(spec):
    n = 0
    for a in spec:
        if a is None:
            continue
        for b in a:
            if b is None:
                continue
            n += sum(1 for x in b if x != '-')
    return n


# ---- family B: read-only operations -----------------------------------------

def _iter_all(f):
    for c, p in f:
        if isinstance(p, Fiber):
            _iter_all(p)


def _readers(depth):
    pts = list(itertools.product(range(3), repeat=depth))
    R = {
        "getPayload-all-points": lambda T, U: [T.getPayload(*pt[:k]) for pt in pts for k in range(1, depth + 1)],
        "getPayload-noalloc": lambda T, U: [T.getPayload(*pt, allocate=False, default=7) for pt in pts],
        "iterate": lambda T, U: _iter_all(T.getRoot()),
        "iterOccupancy": lambda T, U: list(T.getRoot().iterOccupancy()),
        "iterShape": lambda T, U: list(T.getRoot().iterShape()),
        "iterActive": lambda T, U: list(T.getRoot().iterActive()),
        "iterActiveShape": lambda T, U: list(T.getRoot().iterActiveShape()),
        "iterRange": lambda T, U: list(T.getRoot().iterRange(0, 2)),
        "iterRangeShape": lambda T, U: list(T.getRoot().iterRangeShape(0, 3, 2)),
        "and": lambda T, U: list(T.getRoot() & U.getRoot()),
        "or": lambda T, U: list(T.getRoot() | U.getRoot()),
        "xor": lambda T, U: list(T.getRoot() ^ U.getRoot()),
        "sub": lambda T, U: list(T.getRoot() - U.getRoot()),
        "intersection-lf": lambda T, U: list(Fiber.intersection(T.getRoot(), U.getRoot(), style="leader-follower")),
        "union3": lambda T, U: list(Fiber.union(T.getRoot(), U.getRoot(), T.getRoot())),
        "coiterShape": lambda T, U: list(Fiber.coiterShape([T.getRoot(), U.getRoot()])),
        "eq-tensor": lambda T, U: (T == U, U == T, T == T),
        "eq-fiber": lambda T, U: (T.getRoot() == U.getRoot()),
        "isEmpty": lambda T, U: T.getRoot().isEmpty(),
        "countValues": lambda T, U: (T.countValues(), T.getRoot().countValues()),
        "len": lambda T, U: len(T.getRoot()),
        "getShape": lambda T, U: (T.getShape(), T.getShape(authoritative=True), T.getRoot().getShape(),
                                  T.getRoot().getShape(all_ranks=False), T.getRoot().estimateShape()),
        "getDepth": lambda T, U: (T.getDepth(), T.getRoot().getDepth()),
        "getters": lambda T, U: (T.getRankIds(), T.getDefault(), T.getName(), T.getColor(), T.isMutable(),
                                 [T.getFormat(r) for r in T.getRankIds()], T.getRoot().getActive(),
                                 T.getRoot().getDefault(), T.getRoot().maxCoord(), T.getRoot().minCoord()),
        "str-repr-format": lambda T, U: (str(T), repr(T), format(T), str(T.getRoot()), repr(T.getRoot()),
                                         format(T.getRoot(), "")),
        "print": lambda T, U: (T.print(), T.getRoot().print()),
        "dump-yaml": lambda T, U: (T.dump(os.path.join(core.scratch(), "c10.yaml")),
                                   T.getRoot().dump(os.path.join(core.scratch(), "c10f.yaml"))),
        "fiber2dict": lambda T, U: T.getRoot().fiber2dict(),
        "uncompress": lambda T, U: T.getRoot().uncompress() if T.countValues() else None,
        "nonEmpty": lambda T, U: T.getRoot().nonEmpty(),
        "getitem": lambda T, U: [T.getRoot()[i] for i in range(len(T.getRoot()))] + [T.getRoot()[0:1]],
        "getCoords-getPayloads": lambda T, U: (T.getRoot().getCoords(), T.getRoot().getPayloads()),
        "format-footprint": lambda T, U: _footprints(T),
    }
    return R


def _footprints(T):
    spec = {r: {"format": T.getFormat(r), "cbits": 3, "pbits": 5, "fhbits": 1, "rhbits": 2} for r in T.getRankIds()}
    f = Format(T, spec)
    out = [f.getTensor(), f.getRoot()]
    for r in T.getRankIds():
        out.append(f.getRank(r))
    for pt in itertools.product(range(2), repeat=T.getDepth()):
        for k in range(T.getDepth()):
            try:
                out.append(f.getSubTree(*pt[:k]))
                out.append(f.getFiber(*pt[:k]))
            except Exception:
                pass
    return out


_READERS = {2: _readers(2), 3: _readers(3)}


def case_read_only(case):
    spec, uspec, depth, cfg = case
    out = []
    feats = tree_features(spec, depth) | {"depth:%d" % depth, "fmt:" + "".join(cfg[0])}
    if cfg[1]:
        feats.add("nonzero_default")
    if not cfg[2]:
        feats.add("estimated_shape")
    elif cfg[2] == "filled":
        feats.add("built_empty_filled_by_reference")
    cur = core.CUR
    for name, fn in _READERS[depth].items():
        T = mk(spec, depth, cfg)
        U = mk(uspec, depth, cfg)
        bT = (rawtree(T.getRoot()), rank_index_view(T))
        bU = (rawtree(U.getRoot()), rank_index_view(U))
        aT, aU = rawtensor(T), rawtensor(U)
        try:
            fn(T, U)
        except (Exception, SystemExit) as ex:
            cur.path("reader-raised:%s:%s" % (name, type(ex).__name__))
        cur.transitions += 1
        cur.validated += 1
        if (rawtree(T.getRoot()), rank_index_view(T)) != bT or (rawtree(U.getRoot()), rank_index_view(U)) != bU:
            which = "tree" if rawtree(T.getRoot()) != bT[0] or rawtree(U.getRoot()) != bU[0] else "rank-lists"
            out.append((name, "read-only-operation-changed-" + which, feats, [bT, bU],
                        [(rawtree(T.getRoot()), rank_index_view(T)), (rawtree(U.getRoot()), rank_index_view(U))]))
        elif rawtensor(T) != aT or rawtensor(U) != aU:
            out.append((name, "read-only-operation-changed-attributes", feats, [aT, aU], [rawtensor(T), rawtensor(U)]))
    if len(_leaves(mk(spec, depth, cfg))) >= 2:
        cur.nt("read-only")
    cur.states += 1
    return out


def shard_read(acc, shard, nshards, params):
    depth, quick, wmax = params
    specs = t2(2, 2) if depth == 2 else [s for s in t3(2, 2, 2) if _w3(s) <= wmax]
    # the second operand of binary readers: a few fixed trees incl. disjoint / overlapping / empty
    others = [specs[0], specs[len(specs) // 2], specs[-1]][:2 if quick else 3]

    def gen():
        for cfg in _cfgs(depth, quick):
            for spec in specs:
                for u in others:
                    yield (spec, u, depth, cfg)
    core.drive(acc, "read_only", case_read_only, gen(), shard, nshards, family="read-only[depth=%d]" % depth)



# ---------------------------------------------------------------------------
# a read leaves no trace in the future: (read, then edit, then observe) equals (edit, then observe) on a twin that
# was never read.  Differential oracle - nothing about the semantics of the reads or of the edits is assumed.

def _mkf1(spec):
    coords, ordered, shape = spec
    kw = {}
    if not ordered:
        kw["ordered"] = False
    if shape is not None:
        kw["shape"] = shape
    return Fiber(list(coords), [10 + c for c in coords], **kw)


F_READS = {
    "getShape": lambda f: f.getShape(),
    "getShape-nonauth": lambda f: f.getShape(authoritative=False),
    "estimateShape": lambda f: f.estimateShape(),
    "getActive": lambda f: f.getActive(),
    "maxCoord": lambda f: f.maxCoord(),
    "minCoord": lambda f: f.minCoord(),
    "iterActive": lambda f: list(f.iterActive()),
    "iterOccupancy": lambda f: list(f.iterOccupancy()),
    "iter": lambda f: list(f),
    "len": lambda f: len(f),
    "isEmpty": lambda f: f.isEmpty(),
    "countValues": lambda f: f.countValues(),
    "getDepth": lambda f: f.getDepth(),
    "str": lambda f: str(f),
    "eq": lambda f: f == Fiber([0], [1]),
    "getPayload-absent": lambda f: f.getPayload(99),
    "getPosition": lambda f: f.getPosition(2),
    "uncompress": lambda f: f.uncompress(),
    "fiber2dict": lambda f: f.fiber2dict(),
    "getCoords": lambda f: list(f.getCoords()),
    "nonEmpty": lambda f: f.nonEmpty(),
    "copy": lambda f: copy.deepcopy(f),
    "add-scalar": lambda f: f + 1,
    "splitUniform": lambda f: f.splitUniform(2),
}


def _fedit(f, e):
    k = e[0]
    if k == "append":
        f.append(e[1], e[2])
    elif k == "ref":
        r = f.getPayloadRef(e[1])
        r <<= e[2]
    elif k == "setcp":
        f[e[1]] = CoordPayload(e[2], e[3])
    elif k == "setv":
        f[e[1]] = e[2]
    elif k == "iadd":
        f += Fiber(list(e[1]), list(e[2]))
    elif k == "clear":
        f.clear()
    elif k == "extend":
        f.extend(Fiber(list(e[1]), list(e[2])))


def _fobserve(f):
    obs = [("raw", rawtree(f))]
    for name in ("getShape", "getShape-nonauth", "estimateShape", "getActive", "maxCoord", "iterActive", "iterOccupancy",
                 "len", "isEmpty", "countValues", "str", "fiber2dict", "add-scalar"):
        try:
            v = F_READS[name](f)
            if name in ("iterActive", "iterOccupancy"):
                v = [(c, Payload.get(p)) for c, p in v]
            elif name == "add-scalar":
                v = rawtree(v)
            obs.append((name, repr(v)))
        except Exception as ex:
            obs.append((name, "EXC:" + type(ex).__name__))
    return obs


def case_read_then_edit(case):
    spec, rname, edit = case
    out = []
    feats = {"read:" + rname, "edit:" + edit[0], "ordered" if spec[1] else "unordered",
             "declared_shape" if spec[2] is not None else "no_declared_shape"}
    cur = core.CUR
    try:
        twin = _mkf1(spec)
        f = _mkf1(spec)
    except Exception:
        return out
    try:
        F_READS[rname](f)
    except Exception as ex:
        cur.path("read-raised:%s:%s" % (rname, type(ex).__name__))
    errs = []
    for x in (twin, f):
        try:
            _fedit(x, edit)
            errs.append(None)
        except Exception as ex:
            errs.append(type(ex).__name__)
    cur.transitions += 2
    cur.validated += 1
    if errs[0] != errs[1]:
        out.append(("read-then-edit", "edit-outcome-depends-on-an-earlier-read", feats, errs[0], errs[1]))
    else:
        a, b = _fobserve(twin), _fobserve(f)
        if a != b:
            d = [(x[0], x[1], y[1]) for x, y in zip(a, b) if x != y]
            out.append(("read-then-edit", "future-depends-on-an-earlier-read", feats | {"differs:" + d[0][0]},
                        [x[1:] for x in d][0][0], [x[1:] for x in d][0][1]))
    cur.nt("read-then-edit")
    cur.states += 1
    return out


def shard_read_then_edit(acc, shard, nshards, params):
    quick, = params
    specs = []
    for coords in ((), (1,), (0, 2), (1, 2, 4), (0, 1, 2)):
        for shape in (None, 6):
            specs.append((coords, True, shape))
    for coords in ((2, 0), (3, 1, 2), (0, 4, 1)):
        for shape in (None, 6):
            specs.append((coords, False, shape))
    edits = [("append", 5, 7), ("append", 7, 7), ("append", 3, 0), ("ref", 5, 7), ("ref", 0, 7), ("ref", 3, 0), ("ref", 7, 7),
             ("setcp", 0, 9, 7), ("setcp", -1, 9, None), ("setcp", -1, 8, 3), ("setv", 0, 0), ("setv", -1, 5),
             ("iadd", (1, 5), (1, 1)), ("iadd", (1, 2, 4), (-11, -12, 3)), ("iadd", (1, 6), (-11, 5)), ("iadd", (0, 7), (-10, 5)),
             ("clear",), ("extend", (8, 9), (1, 1))]

    def gen():
        for sp in specs:
            for r in F_READS:
                for e in edits:
                    yield (sp, r, e)
    core.drive(acc, "read_then_edit", case_read_then_edit, gen(), shard, nshards,
               family="read-then-edit[%d fibers x %d reads x %d edits]" % (len(specs), len(F_READS), len(edits)))



# the same differential oracle on tensors: (reader, then follow-up mutation, then observe) equals (mutation, then observe)

def _tobserve(T):
    obs = [("snap", repr(snap(T)))]
    for name in ("getShape", "getters", "str-repr-format", "countValues", "isEmpty", "iterate", "iterActive", "uncompress",
                 "format-footprint", "fiber2dict"):
        try:
            v = _READERS[2][name](T, T)
            obs.append((name, repr(_val_repr(v))))
        except (Exception, SystemExit) as ex:
            obs.append((name, "EXC:" + type(ex).__name__))
    return obs


def _val_repr(v):
    if isinstance(v, (list, tuple)):
        return [_val_repr(x) for x in v]
    if isinstance(v, Fiber):
        return ("F", rawtree(v))
    if isinstance(v, Payload):
        return ("P", v.value)
    if isinstance(v, CoordPayload):
        return ("CP", v.coord, _val_repr(v.payload))
    return v


def case_tread_then_edit(case):
    spec, cfg, rname, m = case
    out = []
    feats = {"read:" + rname, "edit:" + m, "fmt:" + "".join(cfg[0])}
    if cfg[1]:
        feats.add("nonzero_default")
    if not cfg[2]:
        feats.add("estimated_shape")
    elif cfg[2] == "filled":
        feats.add("built_empty_filled_by_reference")
    cur = core.CUR
    twin, T, U = mk(spec, 2, cfg), mk(spec, 2, cfg), mk(((), ('1', '0')), 2, cfg)
    try:
        _READERS[2][rname](T, U)
    except (Exception, SystemExit) as ex:
        cur.path("reader-raised:%s:%s" % (rname, type(ex).__name__))
    res = []
    for x in (twin, T):
        try:
            res.append(mutate(x, m))
        except Exception as ex:
            res.append("EXC:" + type(ex).__name__)
    cur.transitions += 2
    cur.validated += 1
    if res[0] != res[1]:
        out.append(("read-then-edit", "edit-outcome-depends-on-an-earlier-read", feats, res[0], res[1]))
    elif res[0] is not False:
        a, b = _tobserve(twin), _tobserve(T)
        if a != b:
            d = [(x[0], x[1], y[1]) for x, y in zip(a, b) if x != y][0]
            out.append(("read-then-edit", "future-depends-on-an-earlier-read", feats | {"differs:" + d[0]}, d[1][:1500], d[2][:1500]))
        cur.nt("read-then-edit")
    cur.states += 1
    return out


def shard_tread_then_edit(acc, shard, nshards, params):
    quick, = params
    specs = [s for i, s in enumerate(t2(2, 2)) if i % (9 if quick else 3) == 0]
    cfgs = [(("C", "C"), 0, False), (("C", "C"), 0, "filled"), (("U", "U"), 7, False)] + \
        ([] if quick else [(("C", "C"), 0, True), (("U", "C"), 0, False), (("C", "C"), 0.5, False)])

    def gen():
        for cfg in cfgs:
            for spec in specs:
                for r in _READERS[2]:
                    for m in MUTATIONS:
                        yield (spec, cfg, r, m)
    core.drive(acc, "tread_then_edit", case_tread_then_edit, gen(), shard, nshards,
               family="tensor-read-then-edit[%d trees x %d configurations x %d reads x %d edits]" % (
                   len(specs), len(cfgs), len(_READERS[2]), len(MUTATIONS)))


HLS = [None, {"PE": [(1,)]}, {"PE": [(0,)], "Q": [(1, 1)]}, {"PE": [(1, 0)]},
       {0: [(1,)], (1, 0): [(0,)]}]     # workers named by an int and by a tuple (space stamps)


def case_render(case):
    spec, depth, cfg, style = case[:4]
    hl = HLS[case[4]] if len(case) > 4 else None
    out = []
    feats = tree_features(spec, depth) | {"depth:%d" % depth, "style:" + style}
    if hl is not None:
        feats.add("highlights:" + ("whole-subtensor" if any(len(p) < depth for ps in hl.values() for p in ps)
                                   else "leaf-points"))
    T = mk(spec, depth, cfg)
    b = (rawtree(T.getRoot()), rank_index_view(T), rawtensor(T))
    cur = core.CUR

    def render(h):
        kw = {} if h is None else {"highlights": h}
        if style == "tree":
            im = TreeImage(T, **kw).im
        elif style == "uncompressed":
            im = UncompressedImage(T, **kw).im
        else:
            im = TensorImage(T, style=style, **kw).im
        return (im.size, im.tobytes())
    try:
        # plain, (highlighted twice,) plain again: a rendering may not leave anything behind for the next one
        seq = [None, hl, hl, None] if hl is not None else [None, None]
        imgs = []
        for h in seq:
            imgs.append(render(h))
        if hl is None:
            if imgs[0] != imgs[1]:
                out.append(("render:" + style, "two-renderings-differ", feats, imgs[0][0], imgs[1][0]))
        else:
            if imgs[1] != imgs[2]:
                out.append(("render:" + style, "two-renderings-differ", feats, imgs[1][0], imgs[2][0]))
            if imgs[0] != imgs[3]:
                out.append(("render:" + style, "plain-rendering-differs-after-a-highlighted-one", feats,
                            imgs[0][0], imgs[3][0]))
        cur.nt("render")
        cur.outcome(imgs[0])
    except Exception as ex:
        if len(imgs) >= 1 and seq[len(imgs)] is None:
            # the same plain rendering succeeded at the start of this sequence
            out.append(("render:" + style, "plain-rendering-raises-after-a-highlighted-one",
                        feats | {"raised:" + type(ex).__name__, "site:" + core.exc_site(ex)}, None, core.tb_tail(ex)))
        elif len(imgs) == 2 and hl is not None:
            out.append(("render:" + style, "second-highlighted-rendering-raises",
                        feats | {"raised:" + type(ex).__name__, "site:" + core.exc_site(ex)}, None, core.tb_tail(ex)))
        else:
            cur.path("render-raised:%s:%s" % (style, type(ex).__name__))
    cur.transitions += 2
    cur.validated += 2
    a = (rawtree(T.getRoot()), rank_index_view(T), rawtensor(T))
    if a != b:
        which = "tree" if a[0] != b[0] else ("rank-lists" if a[1] != b[1] else "attributes")
        out.append(("render:" + style, "read-only-operation-changed-" + which, feats, b, a))
    return out


def shard_render(acc, shard, nshards, params):
    depth, nspecs = params
    specs = t2(2, 2) if depth == 2 else t3(2, 2, 2)
    step = max(1, len(specs) // nspecs)
    chosen = specs[::step][:nspecs] if nspecs < len(specs) else specs
    cfg = (("C",) * depth, 0, True)

    def gen():
        for spec in chosen:
            for style in ("tree", "uncompressed", "tree+uncompressed"):
                yield (spec, depth, cfg, style)
                for h in range(1, len(HLS)):
                    yield (spec, depth, cfg, style, h)
    core.drive(acc, "render", case_render, gen(), shard, nshards, family="render[depth=%d]" % depth)


CASES = {"tread_then_edit": case_tread_then_edit, "read_then_edit": case_read_then_edit, "value_returning": case_value_returning, "read_only": case_read_only, "render": case_render}


def run(ctx):
    q = ctx.quick
    core.QUICK_HINT = q
    ctx.bounds = {
        "value-returning": "T2(2,2) (100 trees) x %d tensor configurations x %d operations x 8 follow-up mutations on each side; "
                           "T3(2,2,2) trees with <=%d stored leaves" % (len(_cfgs(2, q)), len(_OPS[2]) + len(_leaf_ops()), 2 if q else 3),
        "read-only": "same trees x 3 partner trees x %d operations" % len(_READERS[2]),
        "render": "TreeImage / UncompressedImage / TensorImage(tree+uncompressed), each twice plain, and plain - highlighted twice - plain with three highlight sets (whole sub-tensor, two workers, leaf point), on %s trees" % ("40 of T2(2,2)" if q else "all of T2(2,2) and 60 of T3(2,2,2)"),
    }
    sel = lambda n: not ctx.only or n in ctx.only
    if sel("value"):
        ctx.shards(shard_value, (2, q, None))
        ctx.shards(shard_value, (3, q, 1 if q else 3))
    if sel("read"):
        ctx.shards(shard_read, (2, q, None))
        ctx.shards(shard_read, (3, q, 1 if q else 2))
    if sel("read"):
        ctx.shards(shard_read_then_edit, (q,))
        ctx.shards(shard_tread_then_edit, (q,))
        ctx.bounds["read-then-edit"] = ("1-D fibers (ordered and ordered=False, with and without a declared shape) x %d read-only / "
                                        "value-returning operations x 18 public edits: the edited fiber must be indistinguishable "
                                        "(raw tree, shape / active-range / extreme-coordinate queries, traversals, printing, f + 1) from "
                                        "a twin that got the same edit without the earlier read" % len(F_READS))
    if sel("render"):
        ctx.shards(shard_render, (2, 40 if q else 100), nshards=core.NPROC * 2)
        if not q:
            ctx.shards(shard_render, (3, 60), nshards=core.NPROC * 2)

"""C02 - a tensor's rank bookkeeping always mirrors its fibertree.

(a) E2: every constructor path and every transform on every tree of small
    universes -> mirror() on the result (and on the operand).
(b) E1: BFS over histories of insertions at any depth, populate loops updating
    any subset of the offered references, dense reference iteration, fiber
    assignment and clearing; mirror() in every reached state."""
import copy
import itertools
import os
import random
import time

from fibertree import Fiber, Tensor, Payload

from mc import bfs, core
from mc.obs import hidden_globals, hidden_tensor, rawtree, rawfull, rank_index_view, mirror, content
from mc.univ import t2, t3, mktree, tree_features, RANK_IDS

LEVEL = "model_checking"
RULE = ("(a) every tree of T2(2,2)/T3 slice x every constructor path / transform, mirror predicate on result and operand; "
        "(b) BFS states = canonical (raw tree, rank lists as DFS indices incl. stale entries) over the mutation alphabet, "
        "mirror predicate on every transition; distinct_nontrivial = distinct BFS states + constructor cases whose tree "
        "has at least two fibers")
ASSUMPTIONS = [
    "shapes 2 per rank (3x2 in thorough), depth 2-3, leaf values in {0,1,2}",
    "append/extend/__setitem__ with fiber payloads are not in the property's list of mutators and are not driven",
    "the empty operand of an interior fiber assignment comes from an empty tensor (an unowned Fiber() is depth-ambiguous)",
]

SPEC = "mc.props.c02"
VMAX = 2

# ---------------------------------------------------------------------------
# (a) constructors and transforms


def _yaml_rt(T):
    fn = os.path.join(core.scratch(), "c02.yaml")
    T.dump(fn)
    return Tensor.fromYAMLfile(fn)


def _ids(d):
    return list(RANK_IDS[:d])


CTORS = {
    "fromFiber": lambda spec, d: Tensor.fromFiber(_ids(d), mktree(spec, d), shape=[2] * d),
    "fromFiber-noshape": lambda spec, d: Tensor.fromFiber(_ids(d), mktree(spec, d)),
    "fromFiber-owned-root": lambda spec, d: Tensor.fromFiber(
        _ids(d), Tensor.fromFiber(["A", "B", "C"][:d], mktree(spec, d)).getRoot()),
    "setRoot-again": lambda spec, d: _set_root_again(spec, d),
    "setRoot-slice-of-own-root": lambda spec, d: _set_root_own_slice(spec, d),
    "deepcopy": lambda spec, d: copy.deepcopy(Tensor.fromFiber(_ids(d), mktree(spec, d), shape=[2] * d)),
    "yaml": lambda spec, d: _yaml_rt(Tensor.fromFiber(_ids(d), mktree(spec, d), shape=[2] * d)),
}


def _set_root_own_slice(spec, d):
    """Re-root a populated tensor with an unowned fiber assembled from its own
    (already registered) sub-fibers: a slice of its root."""
    T = Tensor.fromFiber(_ids(d), mktree(spec, d), shape=[2] * d)
    root = T.getRoot()
    T.setRoot(root[0:len(root)] if len(root) else Fiber())
    return T


def _set_root_again(spec, d):
    T = Tensor.fromFiber(_ids(d), mktree(spec, d, tag=2), shape=[2] * d)
    T.setRoot(mktree(spec, d))
    return T


def _xforms(d):
    last = _ids(d)[-1]
    X = {
        "splitUniform-d0": lambda T: T.splitUniform(1),
        "splitEqual-d0": lambda T: T.splitEqual(1),
        "truediv": lambda T: T / 2, "floordiv": lambda T: T // 2,
        "swizzle-rev": lambda T: T.swizzleRanks(list(reversed(T.getRankIds()))),
        "swap": lambda T: T.swapRanks(),
        "flatten": lambda T: T.flattenRanks(),
        "flatten-linear": lambda T: T.flattenRanks(coord_style="linear"),
        "merge-abs": lambda T: T.mergeRanks(coord_style="absolute"),
        "merge-rel": lambda T: T.mergeRanks(coord_style="relative"),
        "flatten-unflatten": lambda T: T.flattenRanks().unflattenRanks(),
        "updateCoords-d0": lambda T: T.updateCoords(lambda i, c, p: c + 1),
        "updatePayloads-leaf": lambda T: T.updatePayloads(lambda i, c, p: p * 2, depth=d - 1),
    }
    for k in range(1, d):
        X["splitUniform-d%d" % k] = lambda T, k=k: T.splitUniform(1, depth=k)
        X["splitEqual-d%d" % k] = lambda T, k=k: T.splitEqual(1, depth=k)
        X["splitNonUniform-d%d" % k] = lambda T, k=k: T.splitNonUniform([0, 1], depth=k)
        X["splitUnEqual-d%d" % k] = lambda T, k=k: T.splitUnEqual([1], depth=k)
        X["updateCoords-d%d" % k] = lambda T, k=k: T.updateCoords(lambda i, c, p: c + 1, depth=k)
    if d >= 3:
        X["swap-d1"] = lambda T: T.swapRanks(depth=1)
        X["flatten-d1"] = lambda T: T.flattenRanks(depth=1)
        X["flatten-l2"] = lambda T: T.flattenRanks(levels=2)
        X["swizzle-rot"] = lambda T: T.swizzleRanks(T.getRankIds()[1:] + T.getRankIds()[:1])
        # a partial swizzle leaves the trailing rank(s) in place
        X["swizzle-top2"] = lambda T: T.swizzleRanks([T.getRankIds()[1], T.getRankIds()[0]] + T.getRankIds()[2:])
    return X


_XF = {}


def case_ctor(case):
    spec, d = case
    out = []
    feats = tree_features(spec, d) | {"depth:%d" % d}
    if len(content(mktree(spec, d))) >= 2:
        core.CUR.nt("ctor")
    for cn, cf in CTORS.items():
        try:
            T = cf(spec, d)
            m = mirror(T)
            if m:
                out.append(("ctor:" + cn, "mirror:" + m, feats, None, rank_index_view(T)))
        except (Exception, SystemExit) as ex:
            out.append(("ctor:" + cn, "exception:" + type(ex).__name__,
                        feats | {"site:" + core.exc_site(ex)}, None, core.tb_tail(ex)))
    if d not in _XF:
        _XF[d] = _xforms(d)
    for xn, xf in _XF[d].items():
        try:
            T = Tensor.fromFiber(_ids(d), mktree(spec, d), shape=[2] * d)
            R = xf(T)
            m = mirror(R)
            if m:
                out.append(("xform:" + xn, "mirror:" + m, feats, None, rank_index_view(R)))
            m0 = mirror(T)
            if m0:
                out.append(("xform:" + xn, "operand-mirror:" + m0, feats, None, rank_index_view(T)))
            core.CUR.path("xform-ok")
        except (Exception, SystemExit) as ex:
            # transforms failing on some input are C09's concern; here only the
            # bookkeeping of what is returned is judged
            core.CUR.path("xform-raised:%s:%s" % (xn, type(ex).__name__))
    return out


def shard_ctor(acc, shard, nshards, params):
    d, specs = params
    universe = t2(2, 2) if d == 2 else [s for s in t3(2, 2, 2, "-0v") if _weight(s) <= specs]
    core.drive(acc, "ctor", case_ctor, ((s, d) for s in universe), shard, nshards,
               family="ctor+xform[depth=%d]" % d)


def _weight(spec):
    n = 0
    for a in spec:
        if a is None:
            continue
        for b in a:
            if b is None:
                continue
            n += sum(1 for x in b if x != '-')
    return n


def case_rejoin(case):
    """A root that already belongs to a tensor is copied / given to another tensor.
    The source tensor's leaf default (7) differs from the default its fibers were
    built with (0), and some sub-fibers hold only zeros: whether such a fiber
    counts as empty depends on who owns it."""
    spec, how = case
    out = []
    feats = tree_features(spec, 2) | {"how:" + how, "rank_default_differs_from_fiber_default"}
    try:
        src = Tensor.fromFiber(["A", "B"], mktree(spec, 2, tag=1, default=0), shape=[2, 2], default=7)
        m0 = mirror(src)
        if m0:
            return [("rejoin:" + how, "source-mirror-before:" + m0, feats, None, rank_index_view(src))]
        if how == "copy-noowner":
            c = src.getRoot().copy(preserve_owner=False)
            dst = None
        elif how == "fromFiber":
            dst = Tensor.fromFiber(["M", "N"], src.getRoot(), default=7)
        else:
            dst = Tensor(rank_ids=["M", "N"], default=7)
            dst.setRoot(src.getRoot())
        m = mirror(src)
        if m:
            out.append(("rejoin:" + how, "source-mirror:" + m, feats, None, rank_index_view(src)))
        if dst is not None:
            m = mirror(dst)
            if m:
                out.append(("rejoin:" + how, "mirror:" + m, feats, None, rank_index_view(dst)))
        core.CUR.nt("rejoin")
    except Exception as ex:
        out.append(("rejoin:" + how, "exception:" + type(ex).__name__, feats | {"site:" + core.exc_site(ex)},
                    None, core.tb_tail(ex)))
    return out


def shard_rejoin(acc, shard, nshards, params):
    core.drive(acc, "rejoin", case_rejoin, ((s, h) for s in t2(2, 2) for h in ("copy-noowner", "fromFiber", "setRoot")),
               shard, nshards, family="rejoin[T2(2,2), leaf default 7 over fibers built with default 0]")


def case_other_ctor(case):
    kind = case[0]
    out = []
    st = random.getstate()
    try:
        if kind == "nest":
            T = Tensor.fromUncompressed(_ids(len(case[2])), _nest(case[1], case[2]))
        elif kind == "random":
            _, shape, dens, seed = case
            T = Tensor.fromRandom(_ids(len(shape)), list(shape), list(dens), seed=seed)
        elif kind == "populated":
            T = Tensor.makePopulated(_ids(len(case[1])), list(case[1]), initial=case[2])
        elif kind == "empty":
            T = Tensor(rank_ids=_ids(case[1]))
        elif kind == "empty-shape":
            T = Tensor(rank_ids=_ids(case[1]), shape=[2] * case[1])
        m = mirror(T)
        if m:
            out.append(("ctor:" + kind, "mirror:" + m, {kind}, None, rank_index_view(T)))
        T2 = copy.deepcopy(T)
        m = mirror(T2)
        if m:
            out.append(("ctor:deepcopy-of-" + kind, "mirror:" + m, {kind}, None, rank_index_view(T2)))
        core.CUR.nt("other-ctor")
    except (Exception, SystemExit) as ex:
        out.append(("ctor:" + kind, "exception:" + type(ex).__name__, {kind, "site:" + core.exc_site(ex)},
                    None, core.tb_tail(ex)))
    finally:
        random.setstate(st)
    return out


def _nest(vals, shape):
    it = iter(vals)

    def rec(i):
        if i == len(shape) - 1:
            return [next(it) for _ in range(shape[i])]
        return [rec(i + 1) for _ in range(shape[i])]
    return rec(0)


def shard_other_ctor(acc, shard, nshards, params):
    def gen():
        for shape in ((2, 2), (2, 2, 2)):
            n = 1
            for s in shape:
                n *= s
            for vals in itertools.product((0, 1), repeat=n):
                yield ("nest", vals, shape)
        for seed in range(8):
            for dens in ((1.0, 0.5), (1.0, 1.0), (0.5, 0.5)):
                yield ("random", (2, 3), dens, seed)
            yield ("random", (2, 2, 2), (1.0, 0.5, 0.5), seed)
        for shape in ((2, 2), (2, 1, 2), (3,)):
            for init in (0, 3):
                yield ("populated", shape, init)
        for d in (1, 2, 3):
            yield ("empty", d)
            yield ("empty-shape", d)
    core.drive(acc, "other_ctor", case_other_ctor, gen(), shard, nshards, family="ctor[nest,random,populated,empty]")


# ---------------------------------------------------------------------------
# (b) E1 over mutation histories

class St:
    pass


def build(init):
    d, shape, spec = init
    S = St()
    S.d, S.shape = d, shape
    if spec is None:
        S.T = Tensor(rank_ids=_ids(d), shape=list(shape))
    else:
        S.T = Tensor.fromFiber(_ids(d), mktree(spec, d, tag=0), shape=list(shape))
    return S


def _paths(f, prefix=()):
    out = [prefix]
    for c, p in zip(f.coords, f.payloads):
        if isinstance(p, Fiber):
            out.extend(_paths(p, prefix + (c,)))
    return out


def _fiber_at(T, path):
    f = T.getRoot()
    for c in path:
        f = f.payloads[f.coords.index(c)]
    return f


def _srcs(d, shape):
    """Source trees for populate / assignment (specs of depth d)."""
    if d == 1:
        return [(), ('1', '-'), ('-', '1'), ('1', '1')]
    if d == 2:
        return [(None, None), (('1', '1'), None), (('-', '1'), ('1', '-')), (None, ('1', '1'))]
    return [((('1', '-'), None), None), ((None, ('1', '1')), (('-', '1'), None))]


def _bodies(spec, d):
    """Every loop body for a nested populate driven by `spec`: per offered
    sub-fiber descend ('d') or skip ('s'), per offered leaf assign ('a') or
    leave ('n'); decisions in DFS order."""
    if d == 1:
        n = sum(1 for x in spec if x not in '-0')
        return [tuple(b) for b in itertools.product("an", repeat=n)]
    parts = []
    for x in spec:
        if x is None or not _nonempty(x, d - 1):
            continue
        # 't' = the body touches the offered sub-fiber through a reference
        # (getPayloadRef creates an element / an empty child) but writes no value;
        # 'i' = it walks it densely with iterShapeRef
        sub = [("s",), ("t",), ("i",)] + [("d",) + b for b in _bodies(x, d - 1)]
        parts.append(sub)
    res = [()]
    for sub in parts:
        res = [r + s for r in res for s in sub]
    return res


def _nonempty(spec, d):
    if d == 1:
        return any(x not in '-0' for x in spec)
    return any(x is not None and _nonempty(x, d - 1) for x in spec)


def _mk_src(spec, d):
    """Source operand of depth d; the empty one is taken from an empty tensor
    so that its default says 'payloads are fibers'."""
    if d >= 2 and all(x is None for x in spec):
        return Tensor(rank_ids=["A", "B", "C"][:d]).getRoot()
    if d == 1 and not spec:
        return Fiber()
    return mktree(spec, d, tag=0)


def ops(S):
    T, d = S.T, S.d
    out = []
    root = T.getRoot()
    # insertions at any depth, through the tensor and through sub-fibers
    for ln in range(1, d + 1):
        for pt in itertools.product(*[range(S.shape[i]) for i in range(ln)]):
            if ln < d:
                out.append(("ref", pt, "none"))
            else:
                cur = T.getPayload(*pt)
                cur = cur.value if isinstance(cur, Payload) else 0
                for act in ("none", "set1", "set0") + (("inc",) if cur < VMAX else ()):
                    out.append(("ref", pt, act))
    paths = _paths(root)
    for p in paths:
        lvl = len(p)
        for c in range(S.shape[lvl]):
            out.append(("posref", p, c))
            if lvl > 0 and lvl < d - 1:
                out.append(("subref", p, c))
        out.append(("clear", p))
        out.append(("shaperef", p))
        for spec in _srcs(d - lvl, S.shape[lvl:]):
            out.append(("assign", p, spec))
    # populate loops from the root
    for spec in _srcs(d, S.shape):
        for body in _bodies(spec, d):
            out.append(("pop", (), spec, body))
    # populate loops into an existing sub-fiber
    if d >= 2:
        for p in paths:
            if len(p) == 1:
                for spec in _srcs(d - 1, S.shape[1:])[1:3]:
                    for body in _bodies(spec, d - 1):
                        out.append(("pop", p, spec, body))
    return out


def _populate(z, a, d, body):
    if d == 1:
        for c, (zr, av) in z << a:
            if next(body) == "a":
                zr <<= 1
        return
    for c, (zs, asub) in z << a:
        act = next(body)
        if act == "d":
            _populate(zs, asub, d - 1, body)
        elif act == "t":
            zs.getPayloadRef(0)
        elif act == "i":
            for _ in zs.iterShapeRef():
                pass


def _apply(S, op):
    T, d = S.T, S.d
    k = op[0]
    if k == "ref":
        r = T.getPayloadRef(*op[1])
        a = op[2]
        if a == "set1":
            r <<= 1
        elif a == "set0":
            r <<= 0
        elif a == "inc":
            r += 1
    elif k == "posref":
        _fiber_at(T, op[1]).getPositionRef(op[2])
    elif k == "subref":
        _fiber_at(T, op[1]).getPayloadRef(op[2], 0)
    elif k == "clear":
        _fiber_at(T, op[1]).clear()
    elif k == "shaperef":
        for _ in _fiber_at(T, op[1]).iterShapeRef():
            pass
    elif k == "assign":
        f = _fiber_at(T, op[1])
        f <<= _mk_src(op[2], d - len(op[1]))
    elif k == "pop":
        z = _fiber_at(T, op[1])
        dd = d - len(op[1])
        _populate(z, _mk_src(op[2], dd), dd, iter(op[3]))


def step(S, op):
    out = []
    err = None
    try:
        _apply(S, op)
    except Exception as ex:
        err = ex
    m = mirror(S.T)
    if m:
        feats = {"depth:%d" % S.d, "target-level:%d" % (len(op[1]) if len(op) > 1 and isinstance(op[1], tuple) else 0)}
        if err is not None:
            feats.add("raised:" + type(err).__name__)
        out.append((op[0], "mirror:" + m, feats, None, rank_index_view(S.T)))
    elif err is not None:
        core.CUR.path("raised:%s:%s" % (op[0], type(err).__name__))
    return out


def key(S):
    return (rawfull(S.T.getRoot()), rank_index_view(S.T), hidden_globals(), hidden_tensor(S.T))




# ---------------------------------------------------------------------------
# read-only binary operations between the roots of two tensors: comparing or
# co-iterating two trees may not enter anything into (or drop anything from)
# either tensor's rank lists.

def _walk2(op, a, b):
    """Traverse op(a, b) to the leaves (the lazy result offers pairs of payloads)."""
    n = 0
    if op == "|":
        for _, (_, x, y) in a | b:
            n += 1
            if isinstance(x, Fiber) and isinstance(y, Fiber):
                n += _walk2(op, x, y)
    elif op == "^":
        for _, (_, x, y) in a ^ b:
            n += 1
    elif op == "&":
        for _, (x, y) in a & b:
            n += 1
            if isinstance(x, Fiber) and isinstance(y, Fiber):
                n += _walk2(op, x, y)
    elif op == "-":
        for _, x in a - b:
            n += 1
    return n


READERS = ("==", "!=", "|", "^", "&", "-")


def case_readers(case):
    sa, sb = case
    out = []
    feats = {"a:" + f for f in tree_features(sa, 2)} | {"b:" + f for f in tree_features(sb, 2)}
    for op in READERS:
        try:
            TA = Tensor.fromFiber(["M", "N"], mktree(sa, 2), shape=[2, 2])
            TB = Tensor.fromFiber(["M", "N"], mktree(sb, 2, tag=2), shape=[2, 2])
            va, vb = rank_index_view(TA), rank_index_view(TB)
            a, b = TA.getRoot(), TB.getRoot()
            if op == "==":
                a == b
            elif op == "!=":
                a != b
            else:
                _walk2(op, a, b)
            for side, T, v in (("left", TA, va), ("right", TB, vb)):
                m = mirror(T)
                if m:
                    out.append(("reader:" + op, "operand-mirror:" + m, feats | {"side:" + side}, v, rank_index_view(T)))
                elif rank_index_view(T) != v:
                    out.append(("reader:" + op, "operand-rank-lists-changed", feats | {"side:" + side}, v,
                                rank_index_view(T)))
        except Exception as ex:
            core.CUR.path("reader-raised:%s:%s" % (op, type(ex).__name__))     # C04 / C12 judge the results
    if content(mktree(sa, 2)) != content(mktree(sb, 2)):
        core.CUR.nt("readers")
    return out


def shard_readers(acc, shard, nshards, params):
    u = t2(2, 2)
    core.drive(acc, "readers", case_readers, ((a, b) for a in u for b in u), shard, nshards,
               family="readers[T2(2,2)^2 x {==,!=,|,^,&,-}]")


CASES = {"history": bfs.replay_case, "ctor": case_ctor, "other_ctor": case_other_ctor, "rejoin": case_rejoin, "readers": case_readers}


def run(ctx):
    q = ctx.quick
    acc = ctx.acc
    only = ctx.only
    if not only or "ctor" in only:
        ctx.shards(shard_ctor, (2, None))
        ctx.shards(shard_ctor, (3, 2 if q else 3))
        ctx.shards(shard_other_ctor, None, nshards=16)
        ctx.shards(shard_rejoin, None, nshards=16)
    if not only or "readers" in only:
        ctx.shards(shard_readers, None)
    fams = [
        ("bfs-2x2", [(2, (2, 2), None), (2, (2, 2), (('0', '1'), None)), (2, (2, 2), (('-', '-'), ('1', '0')))],
         3 if q else None, 60 if q else 900),
        ("bfs-2x2x2", [(3, (2, 2, 2), None), (3, (2, 2, 2), ((('0', '1'), None), (None, ('1', '-'))))],
         2 if q else 3, 60 if q else 600),
    ]
    if not q:
        fams.append(("bfs-3x2", [(2, (3, 2), None), (2, (3, 2), (('0', '1'), None, ('1', '1')))], 4, 600))
    ctx.bounds = {"ctor": "T2(2,2) (100 trees) and T3(2,2,2) trees with <=%d stored leaves x 6 constructor paths x all transforms; "
                          "fromUncompressed nests 2x2, 2x2x2 over {0,1}; fromRandom seeds 0..7; makePopulated; empty" % (2 if q else 3)}
    ctx.bounds["readers"] = ("every ordered pair of T2(2,2) as two tensors x {==, !=, | ^ & - traversed to the leaves}: mirror "
                             "predicate and unchanged rank lists on both operands")
    for name, inits, maxd, budget in fams:
        if only and not any(name.startswith(o) for o in only):
            continue
        info = bfs.explore(acc, SPEC, inits, name, max_depth=maxd, deadline=time.time() + budget)
        ctx.bounds[name] = dict(inits=len(inits), max_depth=maxd, **info)

"""Second-generation transforms: a transform applied to the result of another
transform (split then swizzle, flatten then swap, flatten then flatten, flatten
(levels>=2) then unflatten, ...) on tensors whose extents differ per rank.

Shared by C09 (content moves to its image, result well-formed, every earlier
tensor of the chain untouched) and C14 (rank ids, authoritative shape, stored
coordinates inside shape and active range; earlier tensors keep reporting what
they reported).  The oracle is a plain-Python model of (rank ids, shape,
point -> value).

As a SECOND step (operand = a transform's result: split partitions whose
active range starts above 0, list-named ranks, permuted shapes) the menu also
holds flattenRanks with the int-coordinate styles absolute / linear (declared
shape only) / relative (only as the inverse of a relative-coordinate split) and
splitUniform addressed by rankid= and by rankid= plus a depth= that names
another rank (rankid is documented to override depth).  A second family uses
three ranks of pairwise different extents (2x3x4) with the programs made of
swizzle / swap / flatten only, so that a 3-cycle of the ranks and its inverse
give different shapes (visible to C14 directly, to C09 through a following
linear flatten)."""
import itertools

from fibertree import Fiber, Tensor, Payload

from mc import core
from mc.obs import content, wf, mirror, rawtree

IDS = ["M", "N", "K", "J"]
DIMS = [2, 3, 2, 2]
DIMS3 = (2, 3, 4)      # pairwise different extents: a 3-cycle of the ranks and its inverse give different shapes
INT_STYLES = ("absolute", "relative", "linear")      # flatten styles whose result holds int coordinates


class Collision(Exception):
    """Two stored elements of the lowest flattened rank receive the same
    coordinate in the same fiber: flattenRanks refuses to merge (outside the domain)."""


def as_t(c):
    return c if isinstance(c, tuple) else (c,)


def flat(g):
    out = ()
    for x in g:
        out += as_t(x)
    return out


class Model:
    def __init__(self, ids, shape, points):
        self.ids, self.shape, self.points = list(ids), list(shape), dict(points)
        self.shape_known = True      # False once a step's shape rule is not modelled
        self.kind = ["int"] * len(self.ids)      # what the coordinates of each rank are: int / tuple / pair
        self.rel = [False] * len(self.ids)       # rank holds partition-relative coordinates (lower half of a relative split)

    def copy(self):
        m = Model([list(x) if isinstance(x, list) else x for x in self.ids], self.shape, self.points)
        m.shape_known = self.shape_known
        m.kind = list(self.kind)
        m.rel = list(self.rel)
        return m


def nest_pair(g):
    """(a, b, c, d) -> (a, (b, (c, d)))"""
    g = tuple(g)
    out = tuple(g[-2:])
    for v in reversed(g[:-2]):
        out = (v, out)
    return out


def cut_pair(c, l):
    out = []
    for _ in range(l):
        out.append(c[0])
        c = c[1]
    out.append(c)
    return tuple(out)


def is_flat_rank(rid):
    return isinstance(rid, list)


def _style(op):
    return op[3] if len(op) > 3 else "tuple"


def _how(op):
    """How a split names its rank: 'depth' (depth=), 'rankid' (rankid=) or 'both'
    (rankid= together with a depth= that names another rank; rankid is documented to override depth)."""
    return op[4] if len(op) > 4 else "depth"


def legal(m, op):
    k = op[0]
    n = len(m.ids)
    if k == "split":
        # int-coordinate ranks only; a lower split rank (X.0) may be split again, an upper one (X.1) is not
        rid = m.ids[op[1]] if op[1] < n else None
        return rid is not None and not is_flat_rank(rid) and not str(rid).endswith(".1") and str(rid).count(".") < 2 \
            and not m.rel[op[1]]
    if k == "swizzle":
        # swizzleRanks documents rank_ids as a list of strings: tensors holding a
        # flattened rank (list id) are outside its domain
        return len(op[1]) == n and list(op[1]) != list(range(n)) and not any(is_flat_rank(x) for x in m.ids)
    if k == "swap":
        return op[1] + 1 < n
    if k == "flatten":
        d, l, style = op[1], op[2], _style(op)
        if not d + l < n:
            return False
        if style in INT_STYLES:
            grp = range(d, d + l + 1)
            if any(m.kind[i] != "int" for i in grp):
                return False
            if style == "relative":
                # documented as the inverse of a relative-coordinate split: the lower rank holds relative coordinates
                return l == 1 and m.rel[d + 1] and not m.rel[d]
            if any(m.rel[i] for i in grp):
                return False
            if style == "linear":
                return m.shape_known and all(isinstance(m.shape[i], int) for i in grp)
        return True
    if k == "unflatten":
        rid = m.ids[op[1]] if op[1] < n else None
        return is_flat_rank(rid) and len(rid) >= op[2] + 1 and m.kind[op[1]] in ("tuple", "pair")
    return False


def _combine(g, style, gshape):
    if style == "tuple":
        return flat(g)
    if style == "pair":
        return nest_pair(g)
    if style == "absolute":
        return g[-1]
    if style == "relative":
        return sum(g)
    if style == "linear":
        c = 0
        for x, n_ in zip(g, gshape):
            c = c * n_ + x
        return c
    raise ValueError(style)


def apply_model(m, op):
    m = m.copy()
    k = op[0]
    if k == "split":
        d, step = op[1], op[2]
        rel = len(op) > 3 and op[3]
        x = m.ids[d]
        m.ids[d:d + 1] = [x + ".1", x + ".0"]
        m.shape[d:d + 1] = [m.shape[d], m.shape[d]]
        m.kind[d:d + 1] = ["int", "int"]
        m.rel[d:d + 1] = [False, bool(rel)]
        if rel:
            m.shape_known = False
            m.points = {p[:d] + (p[d] // step * step, p[d] - p[d] // step * step) + p[d + 1:]: v
                        for p, v in m.points.items()}
        else:
            m.points = {p[:d] + (p[d] // step * step, p[d]) + p[d + 1:]: v for p, v in m.points.items()}
    elif k in ("swizzle", "swap"):
        if k == "swap":
            perm = list(range(len(m.ids)))
            perm[op[1]], perm[op[1] + 1] = perm[op[1] + 1], perm[op[1]]
        else:
            perm = list(op[1])
        m.ids = [m.ids[i] for i in perm]
        m.shape = [m.shape[i] for i in perm]
        m.kind = [m.kind[i] for i in perm]
        m.rel = [m.rel[i] for i in perm]
        m.points = {tuple(p[i] for i in perm): v for p, v in m.points.items()}
    elif k == "flatten":
        d, l = op[1], op[2]
        style = _style(op)
        grp = []
        for x in m.ids[d:d + l + 1]:
            grp.extend(x if isinstance(x, list) else [x])
        gshape = m.shape[d:d + l + 1]
        if any(isinstance(s, tuple) for s in gshape) and style != "tuple":
            # (tuple style splices an already flattened rank's coordinates, rank ids and shape alike)
            m.shape_known = False
        if style in INT_STYLES:
            # flattening never merges: two stored elements of the lowest flattened rank must not meet
            seen = {}
            for p in m.points:
                q = p[:d] + (_combine(p[d:d + l + 1], style, gshape),)
                if seen.setdefault(q, p[:d + l + 1]) != p[:d + l + 1]:
                    raise Collision(op)
        if style == "absolute":
            nshape = gshape[-1]
        elif style == "relative":
            nshape = gshape[0]          # pinned by test_tensor.py::test_flattenRanks_corr_shape
        elif style == "linear":
            nshape = 1
            for x in gshape:
                nshape *= x
        else:
            nshape = _combine(gshape, style, None)
        m.points = {p[:d] + (_combine(p[d:d + l + 1], style, gshape),) + p[d + l + 1:]: v for p, v in m.points.items()}
        m.ids[d:d + l + 1] = [grp]
        m.shape[d:d + l + 1] = [nshape]
        m.kind[d:d + l + 1] = [style if style in ("tuple", "pair") else "int"]
        m.rel[d:d + l + 1] = [False]
    elif k == "unflatten":
        d, l = op[1], op[2]
        rid = m.ids[d]
        sh = m.shape[d]
        pair = m.kind[d] == "pair"
        rest_one = len(rid) == l + 1
        new_ids = list(rid[:l]) + [rid[l] if rest_one else list(rid[l:])]
        if pair:
            new_sh = list(cut_pair(sh, l))
        else:
            new_sh = list(sh[:l]) + [sh[l] if len(sh) == l + 1 else tuple(sh[l:])]

        def cut(c):
            if pair:
                return cut_pair(c, l)
            return tuple(c[:l]) + ((c[l],) if len(c) == l + 1 else (tuple(c[l:]),))
        m.points = {p[:d] + cut(p[d]) + p[d + 1:]: v for p, v in m.points.items()}
        m.kind[d:d + 1] = ["int"] * l + ["int" if rest_one else m.kind[d]]
        m.rel[d:d + 1] = [False] * (l + 1)
        m.ids[d:d + 1] = new_ids
        m.shape[d:d + 1] = new_sh
    return m


def apply_real(t, op, m_before):
    k = op[0]
    if k == "split":
        kw = {}
        how = _how(op)
        ids = t.getRankIds()
        if how in ("depth",):
            kw["depth"] = op[1]
        elif how == "rankid":
            kw["rankid"] = ids[op[1]]
        else:       # both: rankid names the rank, depth names its neighbour
            kw["depth"] = (op[1] + 1) % len(ids)
            kw["rankid"] = ids[op[1]]
        if len(op) > 3 and op[3]:
            kw["relativeCoords"] = True
        return t.splitUniform(op[2], **kw)
    if k == "swizzle":
        return t.swizzleRanks([t.getRankIds()[i] for i in op[1]])
    if k == "swap":
        return t.swapRanks(depth=op[1])
    if k == "flatten":
        return t.flattenRanks(depth=op[1], levels=op[2], coord_style=_style(op))
    if k == "unflatten":
        return t.unflattenRanks(depth=op[1], levels=op[2])
    raise ValueError(op)


def menu(n, second=False):
    """Ops offered to a tensor of n ranks.  As a second step (the operand is
    itself a transform's result) additionally: the splits addressed by rank id
    and by rank id + a depth naming another rank, and the flatten styles whose
    result holds int coordinates (absolute, linear, relative)."""
    ops = []
    for d in range(n):
        for step in (1, 2):
            ops.append(("split", d, step))
            ops.append(("split", d, step, True))
        if second:
            ops.append(("split", d, 2, False, "rankid"))
            ops.append(("split", d, 2, False, "both"))
    for perm in itertools.permutations(range(n)):
        ops.append(("swizzle", perm))
    for d in range(n - 1):
        ops.append(("swap", d))
    for d in range(n):
        for l in (1, 2):
            ops.append(("flatten", d, l))
            if second:
                for style in INT_STYLES:
                    ops.append(("flatten", d, l, style))
    for d in range(n):
        for l in (1, 2):
            ops.append(("unflatten", d, l))
    return ops


def programs(n0, dims=None, kinds=None):
    """All legal op pairs for a tensor of n0 ranks (kinds: only programs made of these op kinds)."""
    base = Model(IDS[:n0], list(dims) if dims else DIMS[:n0], {})
    out = []
    for a in menu(n0):
        if not legal(base, a) or a[0] == "unflatten" or (kinds and a[0] not in kinds):
            continue
        ma = apply_model(base, a)
        for b in menu(len(ma.ids), second=True):
            if kinds and b[0] not in kinds:
                continue
            if legal(ma, b):
                out.append((a, b))
    return out


def programs4():
    """4-rank tensors: multi-level flattens in tuple and pair style, alone and followed by their unflatten."""
    out = []
    for d, l in ((0, 2), (0, 3), (1, 2)):
        for style in ("tuple", "pair"):
            out.append((("flatten", d, l, style),))
            out.append((("flatten", d, l, style), ("unflatten", d, l)))
    return out


def needs_declared(prog):
    """'linear' needs an authoritative shape of the flattened lower ranks (documented)."""
    return any(op[0] == "flatten" and _style(op) == "linear" for op in prog)


def _fibers(f, prefix=()):
    out = [(prefix, f)]
    for c, p in zip(f.coords, f.payloads):
        if isinstance(p, Fiber):
            out.extend(_fibers(p, prefix + (c,)))
    return out


def _inside_shape(c, s):
    if isinstance(s, tuple):
        return isinstance(c, tuple) and len(c) == len(s) and all(_inside_shape(x, y) for x, y in zip(c, s))
    if isinstance(c, tuple):
        return False
    return 0 <= c < s


def _norm_ids(ids):
    return [list(x) if isinstance(x, (list, tuple)) else x for x in ids]


def _snap(t):
    """What a tensor reports and holds (taken when it is made, compared after every later step)."""
    ids = t.getRankIds()
    return {"rank-ids": repr(ids), "shape": repr(t.getShape(authoritative=True)), "default": repr(t.getDefault()),
            "content": content(t), "tree": rawtree(t.getRoot())}


def case_compose(case, aspect):
    """case = (n0, points, declared, (op_a, op_b)[, dims]); aspect 'C09' or 'C14'."""
    n0, pts, declared, prog = case[:4]
    shape0 = list(case[4]) if len(case) > 4 else DIMS[:n0]
    m = Model(IDS[:n0], shape0, {tuple(p): 10 * i + 1 for i, p in enumerate(pts)})
    feats = {"first:" + prog[0][0], "second:" + (prog[1][0] if len(prog) > 1 else "-"), "ranks:%d" % n0,
             "shape:" + ("declared" if declared else "estimated")}
    for op in prog:
        if op[0] == "flatten" and len(op) > 3:
            feats.add("style:" + str(op[3]))
        if op[0] == "split" and _how(op) != "depth":
            feats.add("split-by:" + _how(op))
    fam = ";".join(op[0] for op in prog)
    out = []
    cur = core.CUR
    # the model first: a program whose flatten would have to merge stored elements is outside the domain
    models = [m]
    try:
        for op in prog:
            models.append(apply_model(models[-1], op))
    except Collision:
        cur.path("compose:flatten-collision-skipped")
        return out
    # build the real tensor from the points
    t = Tensor(rank_ids=IDS[:n0], shape=shape0) if declared else Tensor(rank_ids=IDS[:n0])
    for p, v in m.points.items():
        ref = t.getPayloadRef(*p)
        ref <<= v
    # every tensor of the chain is snapshotted when made: a later step must leave it alone (C09: "and
    # nothing else"; C14: it keeps reporting the documented ids / shape / default)
    made = [(t, _snap(t))]
    watch = ("rank-ids", "shape", "content", "tree") if aspect == "C09" else ("rank-ids", "shape", "default")
    try:
        r = t
        for i, op in enumerate(prog):
            m_prev = models[i]
            r = apply_real(r, op, m_prev)
            m = models[i + 1]
            for j, (tj, sj) in enumerate(made):
                now = _snap(tj)
                for what in watch:
                    if now[what] != sj[what]:
                        out.append((fam, "earlier-tensor-changed:" + what,
                                    feats | {"changed:" + ("operand" if j == i else "earlier-intermediate"),
                                             "by:" + op[0]},
                                    sj[what], {"tensor": j, "after step": i, "now": now[what]}))
                        break
            if out:
                return out
            made.append((r, _snap(r)))
    except Exception as ex:
        out.append((fam, "exception:" + type(ex).__name__, feats | {"site:" + core.exc_site(ex)}, None, core.tb_tail(ex)))
        return out
    for op in prog:
        if op[0] == "flatten" and len(op) > 3:
            cur.path("compose:flatten-" + str(op[3]))
    if len(m.points) >= 2:
        cur.nt("compose")
    got = content(r)
    if aspect == "C09":
        if got != m.points:
            out.append((fam, "content", feats, m.points, got))
        w = wf(r.getRoot())
        if w:
            out.append((fam, "ill-formed:" + w, feats, None, rawtree(r.getRoot())))
        mm = mirror(r)
        if mm:
            out.append((fam, "rank-lists:" + mm, feats, None, None))
        # a restored tensor flattens linearly to the same content as the original (needs the right shape)
        if prog[-1][0] == "unflatten" and declared and got == m.points and len(prog) == 2 and prog[0][0] == "flatten" \
                and tuple(prog[1][1:3]) == tuple(prog[0][1:3]):
            try:
                d_, l_ = prog[0][1], prog[0][2]
                lin_r = content(r.flattenRanks(depth=d_, levels=l_, coord_style="linear"))
                lin_t = content(t.flattenRanks(depth=d_, levels=l_, coord_style="linear"))
                if lin_r != lin_t:
                    out.append((fam, "restored-tensor-flattens-differently", feats, lin_t, lin_r))
            except Exception as ex:
                out.append((fam, "exception:" + type(ex).__name__, feats | {"linear-reflatten", "site:" + core.exc_site(ex)},
                            None, core.tb_tail(ex)))
        # the inverse permutation restores an equal tensor
        last = prog[-1]
        if last[0] in ("swizzle", "swap") and got == m.points:
            try:
                if last[0] == "swap":
                    back = r.swapRanks(depth=last[1])
                else:
                    inv = [0] * len(last[1])
                    for i, j in enumerate(last[1]):
                        inv[j] = i
                    back = r.swizzleRanks([r.getRankIds()[i] for i in inv])
                if content(back) != m_prev.points:
                    out.append((fam, "inverse-does-not-restore", feats, m_prev.points, content(back)))
            except Exception as ex:
                out.append((fam, "inverse-raises:" + type(ex).__name__, feats | {"site:" + core.exc_site(ex)},
                            None, core.tb_tail(ex)))
        return out
    # C14 aspect
    if _norm_ids(r.getRankIds()) != _norm_ids(m.ids):
        out.append((fam, "rank-ids", feats, m.ids, r.getRankIds()))
    if declared and m.shape_known:
        sh = r.getShape(authoritative=True)
        if sh is None or [tuple(x) if isinstance(x, (list, tuple)) else x for x in sh] != \
                [tuple(x) if isinstance(x, (list, tuple)) else x for x in m.shape]:
            out.append((fam, "shape", feats, m.shape, sh))
    if got == m.points:      # containment is only meaningful for a correctly placed content (else C09's finding)
        for path, f in _fibers(r.getRoot()):
            lvl = len(path)
            try:
                a0, a1 = f.getActive()
                bad = [c for c in f.coords if not (a0 <= c < a1)]
            except TypeError:
                out.append((fam, "active-range-incomparable", feats | {"level:%d" % lvl}, list(f.coords), repr(f.getActive())))
                break
            if bad:
                out.append((fam, "coord-outside-active-range", feats | {"level:%d" % lvl}, repr(f.getActive()), bad))
                break
            try:
                ia = [c for c, _ in f.iterActive()]
                io = [c for c, _ in f.iterOccupancy()]
            except Exception as ex:
                out.append((fam, "exception:" + type(ex).__name__, feats | {"iterActive", "site:" + core.exc_site(ex)}, None, core.tb_tail(ex)))
                break
            if ia != io:
                out.append((fam, "iterActive-differs-from-iterOccupancy", feats | {"level:%d" % lvl}, io, ia))
                break
            if declared and m.shape_known:
                s = m.shape[lvl]
                if any(not _inside_shape(c, s) for c in f.coords):
                    out.append((fam, "coord-outside-shape", feats | {"level:%d" % lvl}, s, list(f.coords)))
                    break
    return out


def point_sets(n0, maxpts):
    dims = DIMS[:n0]
    allp = list(itertools.product(*[range(x) for x in dims]))
    for k in range(0, maxpts + 1):
        for sel in itertools.combinations(allp, k):
            yield sel


def point_sets_dims(dims, maxpts):
    allp = list(itertools.product(*[range(x) for x in dims]))
    for k in range(0, maxpts + 1):
        for sel in itertools.combinations(allp, k):
            yield sel


PERM_KINDS = ("swizzle", "swap", "flatten")


def cases(n0, maxpts, declared_modes=(True, False), dims=None):
    """dims=None: the standard extents DIMS[:n0], every program.  dims given (3
    ranks, pairwise different extents): the programs made of rank permutations
    and flattens only (a permutation and its inverse then give different shapes)."""
    if dims is None:
        progs = programs(n0) if n0 < 4 else programs4()
        psets = point_sets(n0, maxpts)
    else:
        progs = [p for p in programs(n0, dims, PERM_KINDS) if any(op[0] in ("swizzle", "swap") for op in p)]
        psets = point_sets_dims(dims, maxpts)
    for sel in psets:
        for declared in declared_modes:
            for prog in progs:
                if not declared and needs_declared(prog):
                    continue
                yield (n0, sel, declared, prog) if dims is None else (n0, sel, declared, prog, tuple(dims))


def describe(quick):
    """Text for ctx.bounds of C09 / C14."""
    return ("second-generation programs (mc/compose.py): tensors built from <=%s points over extents 2x3 / 2x3x2 / 2x3x2x2 "
            "(declared and estimated shape) x every legal ordered pair of {splitUniform(step 1|2, absolute|relative "
            "coordinates) at every depth, swizzleRanks every permutation, swapRanks every depth, flattenRanks(depth, "
            "levels 1|2, tuple)}; as the second step additionally flattenRanks with absolute / linear (declared shape) / "
            "relative (after a relative split of the same rank) and splitUniform(2) addressed by rankid= and by rankid= + a "
            "depth= naming the neighbouring rank; flatten -> unflatten pairs; 4 ranks: flattenRanks levels 2|3 in tuple and "
            "pair style alone and followed by unflattenRanks; a flatten that would have to merge stored elements is skipped "
            "(path counter compose:flatten-collision-skipped); plus 3 ranks of pairwise different extents 2x3x4 (<=%d points) "
            "x the pairs made of swizzle / swap / flatten (tuple; as second step also absolute, linear) with at least one permutation.  After every step "
            "every earlier tensor of the chain (the step's operand and the tensors before it) is compared with the snapshot "
            "taken when it was made (rank ids, authoritative shape, C09: content and stored tree, C14: default)"
            % ("3/1/2" if quick else "4/2/3", 1 if quick else 2))

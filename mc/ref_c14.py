"""Reference oracles for C14: what a transform's result must report, computed
from what the operand was configured with.  Plain Python, no fibertree import.

An operand is described by
    ids    list of rank ids (strings)
    shape  list of ints when the shape was declared (authoritative), else None
    fmts   dict rank id -> "C" | "U"
(leaf default and mutable hint are carried unchanged by every transform).
An expectation is (ids, shape, fmts) where fmts only holds the ranks whose
format the property fixes: a rank whose id exists on both sides keeps its
format, X.1 / X.0 inherit X's, a rank created by flatten / merge / unflatten is
compressed ("C")."""


def key(rid):
    """Rank ids of flattened ranks are lists: make them hashable."""
    return tuple(key(x) for x in rid) if isinstance(rid, list) else rid


def exp_split(ids, shape, fmts, k):
    x = ids[k]
    nids = ids[:k] + [x + ".1", x + ".0"] + ids[k + 1:]
    nshape = None if shape is None else shape[:k] + [shape[k], shape[k]] + shape[k + 1:]
    nf = {key(i): fmts[key(i)] for i in ids if i != x}
    nf[x + ".1"] = fmts[key(x)]
    nf[x + ".0"] = fmts[key(x)]
    return nids, nshape, nf


def exp_perm(ids, shape, fmts, perm):
    nids = [ids[i] for i in perm]
    nshape = None if shape is None else [shape[i] for i in perm]
    return nids, nshape, dict(fmts)


def exp_swap(ids, shape, fmts, d):
    perm = list(range(len(ids)))
    perm[d], perm[d + 1] = perm[d + 1], perm[d]
    return exp_perm(ids, shape, fmts, perm)


def nest_pair(g):
    out = tuple(g[-2:])
    for v in reversed(g[:-2]):
        out = (v, out)
    return out


def flat_shape(g, style):
    if style == "tuple":
        return tuple(g)
    if style == "pair":
        return nest_pair(g)
    if style == "absolute":
        return g[-1]
    if style == "relative":
        return g[0]          # pinned by test_tensor.py::test_flattenRanks_corr_shape
    if style == "linear":
        n = 1
        for x in g:
            n *= x
        return n
    raise ValueError(style)


def exp_flatten(ids, shape, fmts, d, l, style):
    grp = []
    for x in ids[d:d + l + 1]:
        grp.extend(x if isinstance(x, list) else [x])
    nids = ids[:d] + [grp] + ids[d + l + 1:]
    nshape = None
    if shape is not None:
        nshape = shape[:d] + [flat_shape(shape[d:d + l + 1], style)] + shape[d + l + 1:]
    nf = {key(i): fmts[key(i)] for i in ids[:d] + ids[d + l + 1:]}
    nf[key(grp)] = "C"
    return nids, nshape, nf


def exp_unflatten(ids0, shape0, fmts0, d, l):
    """Result of unflattening ranks d..d+l of flatten(ids0, ...): the original
    ids and shape; untouched ranks keep their format, re-created ranks are C."""
    nf = {}
    for i, x in enumerate(ids0):
        nf[key(x)] = "C" if d <= i <= d + l else fmts0[key(x)]
    return list(ids0), (None if shape0 is None else list(shape0)), nf


def inside_shape(c, s):
    """Component-wise 0 <= c < s for ints and (nested) tuples."""
    if isinstance(s, tuple):
        return isinstance(c, tuple) and len(c) == len(s) and all(inside_shape(x, y) for x, y in zip(c, s))
    if isinstance(c, tuple):
        return False
    return 0 <= c < s


def zero_like(s):
    return tuple(zero_like(x) for x in s) if isinstance(s, tuple) else 0


def inside_shape_lex(c, s):
    """Weaker reading used for estimated shapes of tuple coordinates: the
    library estimates max coordinate + 1 with the lexicographic maximum, so only
    zero <= c < s under the ordering the library iterates with is demanded."""
    if not isinstance(s, tuple):
        return inside_shape(c, s)
    try:
        return zero_like(s) <= c < s
    except TypeError:
        return False


def unnest(s, levels):
    """(a, (b, c)) or (a, b, c) -> [a, b, c] the way an unflatten cuts a shape."""
    out = []
    for _ in range(levels):
        out.append(s[0])
        s = s[1] if len(s) == 2 else s[1:]
    out.append(s)
    return out


def inside_range(c, rng):
    """start <= c < end under the ordering the library iterates with
    (lexicographic for tuple coordinates)."""
    try:
        return rng[0] <= c < rng[1]
    except TypeError:
        return False


def active_of(cells_stored, shape, active):
    """Active range a 1-D fiber reports: its explicit one, else [0, shape) with
    the shape declared or estimated as max stored coordinate + 1 (0 if empty)."""
    if active is not None:
        return tuple(active)
    if shape:
        return (0, shape)
    return (0, (max(cells_stored) + 1) if cells_stored else 0)

"""Reference oracles for C19 (plain Python, no fibertree import).

Intersection cost models: counts obtained from an independent merge of the two
raw coordinate lists of each fiber pair.

Swap-count model: per merge site, per round, per group of `radix` lists,
`latency * (lists + elements)`, or for unbounded latency the number of
comparisons of a head kept sorted by linear insertion (cost of an insertion =
1 + number of head entries that will be output before the new one), as pinned
by test_compute.py::test_num_swaps_undefined_next."""


# ---------------------------------------------------------------------------
# intersection

def merge_counts(A, B):
    """Two-finger merge of two strictly increasing coordinate lists.

    Returns (two_finger, skip_ahead, presented_a, presented_b, ending):
      two_finger  - loop steps before either list is exhausted
      skip_ahead  - maximal same-side runs + matches
      presented_x - elements of x the merge loaded: those it stepped past plus
                    the head it is still holding when the other side ran out
      ending      - how the merge ended (used for trigger features / vacuity)
    """
    i = j = 0
    tf = sa = 0
    cur = None
    last = None
    while i < len(A) and j < len(B):
        tf += 1
        if A[i] == B[j]:
            sa += 1
            cur = None
            i += 1
            j += 1
            last = "match"
        elif A[i] < B[j]:
            if cur != 0:
                sa += 1
                cur = 0
            i += 1
            last = "a-step"
        else:
            if cur != 1:
                sa += 1
                cur = 1
            j += 1
            last = "b-step"
    ra, rb = i < len(A), j < len(B)
    pa = i + (1 if ra else 0)
    pb = j + (1 if rb else 0)
    if last is None:
        ending = "no-step:" + ("both-empty" if not ra and not rb else "lone-peek")
    elif last == "match":
        ending = "match:" + ("both-done" if not ra and not rb else "leftover")
    else:
        ending = "step"          # the other side always holds a head here
    return tf, sa, pa, pb, ending


def oracle_points(prefixes, As, Bs):
    """What each operand presents, fiber by fiber, as (prefix + coord) points:
    the elements the merge stepped past plus the trailing head."""
    p0, p1 = [], []
    for pre, A, B in zip(prefixes, As, Bs):
        _, _, pa, pb, _ = merge_counts(A, B)
        p0.extend(list(pre) + [c] for c in A[:pa])
        p1.extend(list(pre) + [c] for c in B[:pb])
    return p0, p1


def pinned_oneshot_walk(p0, p1, skip_ahead):
    """Deviation model: the walk the pinned models perform over a one-shot
    batch.  The other finger is forwarded at a fiber boundary only in the
    '<' / '>' branches, so a trailing head left behind by a fiber that ended
    in a match (or by a fiber whose other operand was empty) is compared with
    the next fiber.  Returns the count, or "AssertionError" where the pinned
    entry assertion (both batches start in the same fiber) fails."""
    def nxt(t, i):
        if i + 1 < len(t):
            return t[i + 1], i + 1
        return None, None
    n = 0
    a, i = nxt(p0, -1)
    b, j = nxt(p1, -1)
    if a is None or b is None:
        return 0
    if a[:-1] != b[:-1]:
        return "AssertionError"
    fiber = a[:-1]
    cur = None
    while a and b:
        if a == b:
            n += 1
            cur = None
            a, i = nxt(p0, i)
            b, j = nxt(p1, j)
        elif a < b:
            if not skip_ahead or cur != 0:
                cur = 0
                n += 1
            a, i = nxt(p0, i)
            if a is None or fiber != a[:-1]:
                b, j = nxt(p1, j)
        else:
            if not skip_ahead or cur != 1:
                cur = 1
                n += 1
            b, j = nxt(p1, j)
            if b is None or fiber != b[:-1]:
                a, i = nxt(p0, i)
        old = fiber
        fiber = a[:-1] if a else None
        if fiber != old:
            cur = None
    return n


# ---------------------------------------------------------------------------
# swaps

def nonempty(spec, d):
    """A sub-tree spec of depth d holds a non-default leaf."""
    if spec is None:
        return False
    if d == 1:
        return any(x not in '-0' for x in spec)
    return any(nonempty(x, d - 1) for x in spec)


def merge_sites(spec, nranks, depth):
    """The fibers `depth` levels below the root; each as a list of child lists,
    a child list being [(coord, holds_non_default)] in coordinate order."""
    if depth > 0:
        out = []
        for x in spec:
            if x is not None:
                out.extend(merge_sites(x, nranks - 1, depth - 1))
        return out
    site = []
    for child in spec:
        if child is None:
            continue
        if nranks - 1 == 1:
            site.append([(c, x != '0') for c, x in enumerate(child) if x != '-'])
        else:
            site.append([(c, nonempty(g, nranks - 2)) for c, g in enumerate(child) if g is not None])
    return [site]


def _group_cost_latency(group, latency):
    return latency * (len(group) + sum(len(l) for l in group))


def _group_cost_compares(group, hi_first):
    """Head sorted by linear insertion from the output end.  Ties between equal
    coordinates of different lists are broken by list index (hi_first: the
    higher index is output first)."""
    def key(c, i):
        return (c, -i if hi_first else i)
    rest = [list(l) for l in group]
    head = []          # keys, kept sorted ascending; output = smallest
    compares = 0

    def insert(k):
        nonlocal compares
        before = sum(1 for h in head if h[0] < k[0])
        compares += before + 1
        head.append(k)
        head.sort()
    for i, l in enumerate(rest):
        if l:
            c = l.pop(0)
            insert((key(c, i), i))
    while head:
        k = head.pop(0)
        i = k[1]
        if rest[i]:
            c = rest[i].pop(0)
            insert((key(c, i), i))
    return compares


def site_cost(site, radix, latency, keep, elems, hi_first=True):
    """keep: which children count as lists ('all', 'stored', 'nonempty');
    elems: which elements count ('stored', 'nondefault')."""
    lists = []
    for child in site:
        if keep == 'stored' and not child:
            continue
        if keep == 'nonempty' and not any(nd for _, nd in child):
            continue
        lists.append([c for c, nd in child if elems == 'stored' or nd])
    total = 0
    while len(lists) > 1:
        r = len(lists) if (radix == "N" or radix > len(lists)) else radix
        new = []
        for s in range(0, len(lists), r):
            group = lists[s:s + r]
            if latency == "N":
                total += _group_cost_compares(group, hi_first)
            else:
                total += _group_cost_latency(group, latency)
            new.append(sorted(c for l in group for c in l))
        lists = new
    return total


def swaps_allowed(spec, nranks, depth, radix, latency):
    """Set of totals the property's statement licenses.

    The statement does not say whether a stored but content-free child (an
    empty sub-fiber, or one holding only explicit defaults) is a 'list', nor
    whether an explicitly stored default is an 'element', nor how equal heads
    are ordered; every consistent reading is accepted.  On trees without such
    cells and without coordinate ties the set is a singleton."""
    sites = merge_sites(spec, nranks, depth)
    out = set()
    for keep in ('all', 'stored', 'nonempty'):
        for elems in ('stored', 'nondefault'):
            for hi in ((True, False) if latency == "N" else (True,)):
                out.add(sum(site_cost(s, radix, latency, keep, elems, hi) for s in sites))
    return out


def swaps_pinned_reading(spec, nranks, depth, radix, latency):
    """The reading the pinned tests exercise: non-empty children, stored
    coordinates, higher list index first."""
    return sum(site_cost(s, radix, latency, 'nonempty', 'stored', True)
               for s in merge_sites(spec, nranks, depth))


# ---------------------------------------------------------------------------
# loop nests with two or more ranks around the intersection

def nest_shapes(d, k):
    """Every loop nest of d enclosing ranks that reaches the intersection k
    times, up to an order-preserving renaming of each rank's coordinates.

    A shape is the tuple of the k coordinate prefixes (one coordinate per
    enclosing rank) in visiting order: strictly increasing lexicographically
    (a loop visits coordinates in ascending order, an inner loop restarts
    whenever an outer coordinate changes).  Points are only ever compared for
    equality and order, rank by rank, so coordinates 0..k-1 per rank renamed to
    dense ranks give one representative of every distinguishable nest."""
    import itertools
    allp = list(itertools.product(range(k), repeat=d))
    seen, out = set(), []
    for combo in itertools.combinations(allp, k):        # ascending by construction
        cols = []
        for lvl in range(d):
            vals = sorted({p[lvl] for p in combo})
            cols.append({v: i for i, v in enumerate(vals)})
        canon = tuple(tuple(cols[lvl][p[lvl]] for lvl in range(d)) for p in combo)
        if canon not in seen:
            seen.add(canon)
            out.append(canon)
    return out


def nest_batches(prefixes, g):
    """Fiber indices per addTraces call when the traces are handed over every
    time one of the first g enclosing coordinates changes (g = 0: one shot,
    g = number of enclosing ranks: fiber by fiber)."""
    out = [[0]]
    for n in range(1, len(prefixes)):
        if prefixes[n][:g] != prefixes[n - 1][:g]:
            out.append([])
        out[-1].append(n)
    return out


def pinned_batched_walk(prefixes, As, Bs, batches, skip_ahead):
    """pinned_oneshot_walk applied batch by batch (a model that raised stays
    raised)."""
    n = 0
    for b in batches:
        p0, p1 = oracle_points([prefixes[i] for i in b], [As[i] for i in b], [Bs[i] for i in b])
        r = pinned_oneshot_walk(p0, p1, skip_ahead)
        if r == "AssertionError":
            return r
        n += r
    return n

import warnings; warnings.simplefilter("ignore")
from fibertree import Fiber, Tensor, Payload, Metrics
import itertools, collections, sys

def content(f, prefix=(), default=0):
    out={}
    if isinstance(f, Payload):
        return {(): f.value} if f.value!=default else {}
    for c,p in zip(f.coords,f.payloads):
        if isinstance(p,Fiber): out.update(content(p,prefix+(c,),default))
        elif p.value!=default: out[prefix+(c,)]=p.value
    return out

def nest(shape, fn, idx=()):
    if not shape: return fn(idx)
    return [nest(shape[1:], fn, idx+(i,)) for i in range(shape[0])]

class Kernel:
    """expr: (out_ranks, [in_ranks...]) ; loop order list of index vars ; tiles {var: size}"""
    def __init__(self, out, ins, order, tiles=None, style="two-finger"):
        self.out=out; self.ins=ins; self.order=order; self.tiles=tiles or {}; self.style=style
    def prepare(self, tensors, shapes):
        # tensors: list of Tensor (rank ids = ins[i]) ; returns prepared inputs + Z
        order=[]
        for v in self.order:
            if v in self.tiles: order += [v+".1"]
            else: order.append(v)
        # tiled inner loops placed right after... keep simple: inner tile loops at their position in self.order second occurrence? use: outer tiles first then all inner in same order
        inner=[v+".0" for v in self.order if v in self.tiles]
        order = order + inner
        prepped=[]
        for t, ranks in zip(tensors, self.ins):
            tt=t
            for v in ranks:
                if v in self.tiles:
                    tt=tt.splitUniform(self.tiles[v], depth=tt.getRankIds().index(v))
            want=[r for r in order if r in tt.getRankIds()]
            tt=tt.swizzleRanks(want)
            prepped.append(tt)
        zranks=[]
        for v in self.out:
            zranks += [v+".1", v+".0"] if v in self.tiles else [v]
        zorder=[r for r in order if r in zranks]
        Z=Tensor(rank_ids=zorder) if zorder else Tensor(rank_ids=[])
        self.lorder=order; self.zorder=zorder
        return prepped, Z
    def run(self, tensors, shapes):
        ins, Z = self.prepare(tensors, shapes)
        self.ops=collections.Counter()
        cur=[t.getRoot() for t in ins]
        zroot=Z.getRoot()
        self._loop(0, zroot, cur, [t.getRankIds() for t in ins], 0)
        return Z
    def _loop(self, li, z, cur, rankids, zdepth):
        if li==len(self.lorder):
            prod=None
            for p in cur:
                prod = p if prod is None else prod*p
            if self.style=="leader-follower" and Payload.get(prod)==0: return
            z += prod
            return
        v=self.lorder[li]
        part=[i for i,r in enumerate(rankids) if r and r[0]==v]
        inz = zdepth < len(self.zorder) and self.zorder[zdepth]==v
        assert part, "index var with no input"
        fibs=[cur[i] for i in part]
        if len(fibs)==1: co=fibs[0]; unpack=lambda p:[p]
        elif self.style=="leader-follower":
            co=Fiber.intersection(*fibs, style="leader-follower"); unpack=lambda p:list(Payload.get(p))
        else:
            co=fibs[0]
            for f in fibs[1:]: co = co & f
            def unpack(p,n=len(fibs)):
                out=[]
                for _ in range(n-1):
                    a,b=Payload.get(p); out.append(b); p=a
                out.append(p); return list(reversed(out))
        nrank=[ (r[1:] if i in part else r) for i,r in enumerate(rankids)]
        if inz:
            for c,(zr,p) in z << co:
                ps=unpack(p); nc=list(cur)
                for i,q in zip(part,ps): nc[i]=q
                self._loop(li+1, zr, nc, nrank, zdepth+1)
        else:
            for c,p in co:
                ps=unpack(p); nc=list(cur)
                for i,q in zip(part,ps): nc[i]=q
                self._loop(li+1, z, nc, nrank, zdepth)

def dense(out, ins, vals, shapes):
    allv=sorted(set(v for r in ins for v in r))
    res=collections.defaultdict(int)
    for idx in itertools.product(*[range(shapes[v]) for v in allv]):
        env=dict(zip(allv,idx)); prod=1
        for r,val in zip(ins,vals):
            x=val
            for v in r: x=x[env[v]]
            prod*=x
        res[tuple(env[v] for v in out)]+=prod
    return {k:v for k,v in res.items() if v!=0}

def zcontent(Z, kernel):
    c=content(Z.getRoot())
    # map tiled/ordered coords back to out order: absolute coords in .0 ranks
    res={}
    for pt,v in c.items():
        env={}
        for r,x in zip(kernel.zorder,pt):
            base=r.split(".")[0]
            if r.endswith(".1"): continue
            env[base]=x
        res[tuple(env[o] for o in kernel.out)]=v
    return res

exprs={
 "dot":((),[("k",),("k",)]),
 "elem1":(("m",),[("m",),("m",)]),
 "matvec":(("m",),[("m","k"),("k",)]),
 "matmul":(("m","n"),[("m","k"),("k","n")]),
 "rowsum":(("m",),[("m","k")]),
 "outer":(("m","n"),[("m",),("n",)]),
 "elem3":(("m",),[("m",),("m",),("m",)]),
}
shapes={"m":2,"k":2,"n":2}
VALS=[0,1,2]
def all_vals(rank):
    sh=[shapes[v] for v in rank]
    n=1
    for s in sh: n*=s
    for flat in itertools.product(VALS, repeat=n):
        it=iter(flat)
        yield nest(sh, lambda idx: next(it))
bad=collections.Counter(); first={}; total=0
for name,(out,ins) in exprs.items():
    allv=sorted(set(v for r in ins for v in r))
    for vals in itertools.product(*[list(all_vals(r)) for r in ins]):
        exp=dense(out,ins,vals,shapes)
        for order in itertools.permutations(allv):
            for tiles in [{}]+[{v:1} for v in allv]:
                for style in ("two-finger","leader-follower"):
                    total+=1
                    tensors=[Tensor.fromUncompressed(list(r), val, shape=[shapes[v] for v in r]) for r,val in zip(ins,vals)]
                    k=Kernel(out,ins,list(order),tiles,style)
                    try:
                        Z=k.run(tensors,shapes)
                        got=zcontent(Z,k) if out else ({(): Z.getRoot().value} if Z.getRoot().value!=0 else {})
                    except Exception as ex:
                        got=("EXC",type(ex).__name__,str(ex)[:60])
                    if got!=exp:
                        key=(name,style,bool(tiles), got[:2] if isinstance(got,tuple) else "mismatch"); bad[key]+=1
                        first.setdefault(key,(vals,order,tiles,got,exp))
    print(name,total,dict(bad),file=sys.stderr)
print(total,bad)
for k,v in first.items(): print(k,v)

import warnings; warnings.simplefilter("ignore")
from fibertree import Tensor
from fibertree.model import Format, Traffic
import os
D="/tmp/probe/tf"
def write_trace(fn, ranks, rows):
    with open(fn,"w") as f:
        f.write(",".join([r+"_pos" for r in ranks]+ranks+["fiber_pos"])+"\n")
        for stamp, point, pos in rows:
            f.write(",".join(str(x) for x in list(stamp)+list(point)+[pos])+"\n")
Z = Tensor(rank_ids=["M"], shape=[2]); Z.setName("Z")
B = Tensor(rank_ids=["M","N"], shape=[2,5]); B.setName("B")
fmt = {"Z": Format(Z, {"M":{"pbits":8}}), "B": Format(B, {"M":{"pbits":8},"N":{"pbits":8}})}
zr=os.path.join(D,"zr.csv"); zw=os.path.join(D,"zw.csv"); bn=os.path.join(D,"bn.csv")
write_trace(zr,["M"],[((0,),(0,),0)])
write_trace(zw,["M"],[((1,),(3,),3)])   # staging write (pos 3 >= shape 2)
write_trace(bn,["M","N"],[((0,0),(0,1),1)])
for bindings in (
  [{"tensor":"Z","rank":"M","type":"payload","evict-on":"root"}],
  [{"tensor":"Z","rank":"M","type":"payload","evict-on":"root"},{"tensor":"B","rank":"N","type":"payload","evict-on":"root"}],
):
    traces={("Z","M","payload","read"):zr,("Z","M","payload","write"):zw}
    if len(bindings)>1: traces[("B","N","payload","read")]=bn
    try:
        print(len(bindings), Traffic.buffetTraffic(bindings, fmt, traces, 800, 8))
    except Exception as e:
        import traceback; traceback.print_exc()

import warnings; warnings.simplefilter("ignore")
from fibertree import Fiber, Tensor, Payload, TensorImage
import time
a = Tensor.fromUncompressed(["M","K"], [[1,0],[0,2]])
def snap(T):
    def rec(f): return (tuple(f.coords), tuple(rec(p) if isinstance(p,Fiber) else p.value for p in f.payloads))
    return rec(T.getRoot()), [len(r.fibers) for r in T.ranks]
s=snap(a)
for style in ["tree","uncompressed","tree+uncompressed"]:
    t0=time.time()
    im1 = TensorImage(a, style=style).im
    im2 = TensorImage(a, style=style).im
    print(style, im1.size, im1.tobytes()==im2.tobytes(), snap(a)==s, time.time()-t0)

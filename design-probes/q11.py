import warnings; warnings.simplefilter("ignore")
import io, contextlib, itertools, collections
from fibertree import Fiber, Tensor, Payload, Codec
from fibertree.codec.formats.bitvector import TwoHandle
class StubCache(dict):
    miss_count=0; hit_count=0
    def get(self,k,d=None):
        if k in self: self.hit_count+=1
        else: self.miss_count+=1
        return dict.get(self,k,d)
def enc(t, desc, shape=None):
    codec = Codec(tuple(desc), [True]*len(desc))
    ranks = t.getRankIds()
    out = codec.get_output_dict(ranks)
    ot = [list() for _ in range(len(desc)+1)]
    codec.encode(-1, t.getRoot(), ranks, out, ot, shape=shape)
    cache=StubCache()
    for ri,lvl in enumerate(ot):
        for fi,f in enumerate(lvl):
            f.setName(f"T_{ri}_{fi}"); f.cache=cache
    return out, ot
def scan(f):
    """return list of (coord, payload_handle_result) through the handle API"""
    f.setupSlice(0)
    res=[]
    while True:
        h=f.nextInSlice()
        if h is None: break
        c=f.handleToCoord(h)
        p=f.handleToPayload(h)
        res.append((c,p))
    return res
def content(f,prefix=()):
    out={}
    for c,p in zip(f.coords,f.payloads):
        if isinstance(p,Fiber): out.update(content(p,prefix+(c,)))
        elif p.value!=0: out[prefix+(c,)]=p.value
    return out
def decode_arrays(out, ranks, desc, shape):
    # independent decoder by documented layout
    D=len(ranks)
    pos=[0]*D  # running offsets per rank in coords / payloads arrays
    def rec(d, fiber_index, prefix, res):
        """decode fiber number fiber_index at depth d"""
        ck="coords_"+ranks[d].lower(); pk="payloads_"+ranks[d].lower()
        fmt=desc[d]; S=shape[d]
        leaf = d==D-1
        return None
    return None
bad=collections.Counter(); first={}
buf=io.StringIO()
t = Tensor.fromUncompressed(["M","K"], [[1,0,2],[0,0,0],[0,3,0]])
for desc in itertools.product("UCB", repeat=2):
    with contextlib.redirect_stdout(buf):
        try:
            out, ot = enc(t, desc)
            root=ot[1][0]
            r=scan(root)
            lows=[scan(f) for f in ot[2]]
            sizes=[[f.getSize() for f in lvl] for lvl in ot[1:]]
            res=("ok", r, lows, sizes)
        except BaseException as ex:
            import traceback
            res=("EXC", type(ex).__name__, str(ex)[:80], traceback.format_exc().splitlines()[-3:])
    print(desc, res)

import warnings; warnings.simplefilter("ignore")
from fibertree import Fiber, Tensor, Payload, CoordPayload, Metrics
import traceback, tempfile, os
def t(name, fn):
    try:
        print("==", name, "->", fn())
    except BaseException as e:
        print("==", name, "EXC", type(e).__name__, e)
        #traceback.print_exc()

def rankinfo(T):
    return [[id(f) for f in r.fibers] for r in T.ranks]
def walk(T):
    levels=[[] for _ in T.ranks]
    def rec(f,d):
        levels[d].append(id(f))
        for p in f.payloads:
            if isinstance(p,Fiber): rec(p,d+1)
    rec(T.getRoot(),0)
    return levels
def consistent(T):
    return [sorted(a)==sorted(b) for a,b in zip(rankinfo(T), walk(T))]

# swizzle carry-over
def f1():
    a = Tensor.fromUncompressed(["M","K"], [[1,0],[0,2]], default=0)
    a.setFormat("K","U"); a.setMutable(True)
    s = a.swizzleRanks(["K","M"])
    return s.getRankIds(), s.getShape(), s.getFormat("K"), s.isMutable(), s.getDefault()
t("swizzle carry", f1)
def f2():
    a = Tensor.fromUncompressed(["M","K"], [[1,0],[0,2]], default=0)
    a.setFormat("K","U"); a.setMutable(True)
    s = a.swapRanks()
    return s.getRankIds(), s.getShape(authoritative=True), s.getShape(), s.getFormat("K"), s.isMutable(), s.getDefault()
t("swap carry", f2)
def f3():
    a = Tensor.fromUncompressed(["M","K"], [[1,7],[7,2]], default=7)
    fl = a.flattenRanks()
    u = fl.unflattenRanks()
    return fl.getRankIds(), fl.getShape(), fl.getDefault(), u.getRankIds(), u.getShape(), u.getDefault(), u==a
t("flatten/unflatten default", f3)
# yaml tuple
def f4():
    a = Tensor.fromUncompressed(["M","K"], [[1,0],[0,2]])
    fl = a.flattenRanks()
    d = tempfile.mkdtemp()
    fn = os.path.join(d,"x.yaml")
    fl.dump(fn)
    b = Tensor.fromYAMLfile(fn)
    return b == fl, b.getRankIds(), b.getShape()
t("yaml tuple", f4)
def f4b():
    a = Tensor.fromUncompressed(["M","K"], [[1,0],[0,2.5]], name="nm")
    d = tempfile.mkdtemp()
    fn = os.path.join(d,"x.yaml")
    a.dump(fn)
    b = Tensor.fromYAMLfile(fn)
    return b == a, b.getRankIds(), b.getShape(), b.getName()
t("yaml plain", f4b)
def f4c():
    a = Tensor.fromUncompressed([], 5)
    a.setName("z")
    d = tempfile.mkdtemp()
    fn = os.path.join(d,"x.yaml")
    a.dump(fn)
    b = Tensor.fromYAMLfile(fn)
    return b.getRoot(), b.getRankIds(), b.getShape(), b.getName()
t("yaml rank0", f4c)
# clear / ilshift staleness
def f5():
    a = Tensor.fromUncompressed(["M","K"], [[1,0],[0,2]])
    a.getRoot().clear()
    return consistent(a)
t("clear root", f5)
def f6():
    a = Tensor.fromUncompressed(["M","K"], [[1,0],[0,2]])
    b = Fiber.fromUncompressed([[0,3],[0,0]])
    r = a.getRoot(); r <<= b
    return consistent(a), a.getRoot()
t("fiber assign", f6)
def f7():
    a = Tensor(rank_ids=["M","K"])
    r = a.getPayloadRef(1,2); r += 5
    r2 = a.getPayloadRef(0); 
    return consistent(a), a.getRoot()
t("getPayloadRef", f7)
def f8():
    a = Tensor.fromUncompressed(["M","K"], [[1,0],[0,2]])
    snap = repr(a.getRoot()), rankinfo(a)
    p = a.getPayload(0,1); p2 = a.getPayload(1); p3=a.getPayload(3); p4 = a.getPayload(3,1)
    return (repr(a.getRoot()), rankinfo(a)) == snap, p, p3, p4
t("getPayload purity", f8)
# uncompress
def f9():
    a = Tensor.fromUncompressed(["M","K"], [[0,0],[0,0]])
    return a.getShape(), a.getRoot().uncompress(), a.getRoot()
t("all-zero nest", f9)
def f9b():
    a = Fiber.fromUncompressed([[0,0,0],[0,0,0]])
    return a.getShape(), a.uncompress()
t("all-zero nest fiber", f9b)
def f9c():
    a = Fiber.fromUncompressed([[1,0,0],[0,0,0]])
    return a.getShape(), a.uncompress()
t("fiber nest uncompress", f9c)
def f9d():
    a = Tensor.fromUncompressed(["M","K"], [[1,0,0],[0,0,0]])
    return a.getShape(), a.getRoot().uncompress()
t("tensor nest uncompress", f9d)

import warnings; warnings.simplefilter("ignore")
from fibertree import Fiber, Tensor, Payload
import itertools, collections
N=5
def fibers(N):
    for cells in itertools.product("-0v", repeat=N):
        cs=[i for i,x in enumerate(cells) if x!='-']
        ps=[0 if cells[i]=='0' else 10+i for i in cs]
        yield cells, cs, ps
def raw(f):
    return [(c, list(zip(p.coords,[q.value for q in p.payloads])), p.getActive()) for c,p in zip(f.coords,f.payloads)]
def oracle_uniform(cs, ps, active, step, pre, post, rel):
    A0,A1=active
    elems=[(c,p) for c,p in zip(cs,ps) if p!=0]
    parts=collections.OrderedDict()
    # candidate partitions: multiples of step intersecting active
    if not cs: return []
    lo = (A0 // step)*step
    out=[]
    s=lo
    while s < A1:
        e=s+step
        if e> A0 and s < A1:
            mem=[(c,p) for c,p in elems if s-pre <= c < e+post and A0-pre <= c < A1+post]
            if mem:
                out.append((s, [((c-s) if rel else c, p) for c,p in mem], (max(s,A0), min(e,A1))))
        s=e
    return out
bad=collections.Counter(); total=0; first={}
for cells, cs, ps in fibers(N):
    for active in [None]+[(s,e) for s in range(0,N+1) for e in range(s+1,N+2)]:
        for step in range(1,N+2):
            for pre in range(3):
                for post in range(3):
                    for rel in (False,True):
                        f=Fiber(cs,ps,active_range=active)
                        act=f.getActive()
                        total+=1
                        try:
                            r=raw(f.splitUniform(step,pre_halo=pre,post_halo=post,relativeCoords=rel))
                        except Exception as ex:
                            r=("EXC",type(ex).__name__)
                        exp=oracle_uniform(cs,ps,act,step,pre,post,rel)
                        if r!=exp:
                            k=(r[0] if r and r[0]=="EXC" else "mismatch", type(r[1]).__name__ if r and r[0]=="EXC" else "")
                            k=("EXC",r[1]) if r and r[0]=="EXC" else ("mismatch",)
                            bad[k]+=1
                            first.setdefault(k,(cells,active,act,step,pre,post,rel,r,exp))
print(total,bad)
for k,v in first.items(): print(k,v)

import warnings; warnings.simplefilter("ignore")
from fibertree import Fiber, Tensor, Payload
import itertools, collections
N=4
def cellsN(N): return itertools.product("-0v", repeat=N)
def mk(cells, tag):
    cs=[i for i,x in enumerate(cells) if x!='-']
    ps=[0 if cells[i]=='0' else tag*10+i+1 for i in cs]
    return Fiber(cs,ps)
def raw(f): return (tuple(f.coords), tuple(p.value for p in f.payloads))
bad=collections.Counter(); first={}; total=0
def report(k, info):
    bad[k]+=1; first.setdefault(k, info)
ACTIONS=["leave","assign","accum","zero"]
for zc in cellsN(N):
  for ac in cellsN(N):
    offered=[i for i,x in enumerate(ac) if x=='v']
    for body in itertools.product(ACTIONS, repeat=len(offered)):
        total+=1
        z=mk(zc,1); a=mk(ac,2)
        zobj={c:p for c,p in zip(z.coords,z.payloads)}
        araw=raw(a)
        model={c:p.value for c,p in zip(z.coords,z.payloads)}   # stored values (may be 0)
        seen=[]
        try:
            for (c,(zr,av)),act in zip(z << a, body+("X",)*0):
                seen.append(c)
                # ref shows z's current value
                if zr.value != model.get(c,0): report(("refvalue",),(zc,ac,body,c,zr.value))
                if av is not a.payloads[a.coords.index(c)]: report(("a-identity",),(zc,ac,body))
                # wf during
                if list(z.coords)!=sorted(set(z.coords)) or len(z.coords)!=len(z.payloads): report(("wf-during",),(zc,ac,body,raw(z)))
                if act=="assign": zr <<= 5; model[c]=5
                elif act=="accum": zr += av; model[c]=model.get(c,0)+av.value
                elif act=="zero": zr <<= 0; model[c]=0
            if seen!=offered: report(("yield-seq",),(zc,ac,body,seen,offered))
            # after: content equal; coords in a left at default have no element; outside a untouched (same objects)
            got=raw(z)
            exp_content={c:v for c,v in model.items() if v!=0}
            got_content={c:v for c,v in zip(*got) if v!=0}
            if got_content!=exp_content: report(("content",),(zc,ac,body,got,exp_content))
            for c in offered:
                if model.get(c,0)==0 and c in z.coords: report(("left-behind",),(zc,ac,body,got))
            for c,p in zobj.items():
                if c not in offered:
                    if c not in z.coords or z.payloads[z.coords.index(c)] is not p: report(("outside-touched",),(zc,ac,body,got))
            if raw(a)!=araw: report(("a-modified",),(zc,ac,body))
        except Exception as ex:
            report(("EXC",type(ex).__name__),(zc,ac,body,str(ex)[:60]))
print(total,bad)
for k,v in first.items(): print(k,v)

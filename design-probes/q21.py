import warnings; warnings.simplefilter("ignore")
from fibertree import Fiber, Tensor, Payload, CoordPayload
from fibertree.core.fiber import CoordinateError
import itertools, collections, time
N=3; VMAX=2
def raw(f): return (tuple(f.coords), tuple(raw(p) if isinstance(p,Fiber) else (p.value if isinstance(p,Payload) else ("RAW",p)) for p in f.payloads))
def wf(f, leafdepth=None, d=0):
    if len(f.coords)!=len(f.payloads): return "len"
    if any(f.coords[i]>=f.coords[i+1] for i in range(len(f.coords)-1)): return "order"
    for p in f.payloads:
        if isinstance(p,Fiber): return "fiber-in-leaf"
        if not isinstance(p,Payload): return "unboxed"
        if isinstance(p.value,Payload): return "double-box"
    return None
def build(init,hist):
    f=Fiber(list(init[0]),list(init[1]),shape=N)
    for op in hist:
        try: apply(f,op)
        except Exception: pass
    return f
def apply(f,op):
    k=op[0]
    if k=="ref":
        r=f.getPayloadRef(op[1]); a=op[2]
        if a=="set1": r<<=1
        elif a=="set0": r<<=0
        elif a=="inc": r+=1
    elif k=="posref": f.getPositionRef(op[1])
    elif k=="append": f.append(op[1],op[2])
    elif k=="extend": f.extend(Fiber(list(op[1]),list(op[2])))
    elif k=="setv": f[op[1]]=op[2]
    elif k=="setcp": f[op[1]]=CoordPayload(op[2],op[3])
    elif k=="iadds": f+=op[1]
    elif k=="imuls": f*=op[1]
    elif k=="iaddf": f+=Fiber(list(op[1]),list(op[2]))
    elif k=="imulf": f*=Fiber(list(op[1]),list(op[2]))
    elif k=="assign": f<<=Fiber(list(op[1]),list(op[2]))
    elif k=="pop":
        a=Fiber(list(op[1]),[1]*len(op[1]))
        for (c,(zr,av)),act in zip(f<<a, op[2]):
            if act=="a": zr<<=1
            elif act=="z": zr<<=0
    elif k=="shaperef":
        for _ in f.iterShapeRef(): pass
    elif k=="rangeref":
        for i,_ in enumerate(f.iterRangeShapeRef(op[1],op[2],op[3])):
            if op[4] and i==0: break
    elif k=="updc":
        fn={"inc":lambda i,c,p:c+1,"rev":lambda i,c,p:(N-1)-c}[op[1]]
        f.updateCoords(fn)
    elif k=="updp":
        fn={"id":lambda i,c,p:p,"dbl":lambda i,c,p:p*2,"zero":lambda i,c,p:Payload(0)}[op[1]]
        f.updatePayloads(fn)
    elif k=="clear": f.clear()
small=[((),()),((0,),(1,)),((1,),(1,)),((0,2),(1,1)),((1,),(0,))]
def ops(f):
    vals=[p.value for p in f.payloads]; mx=max(vals+[0])
    out=[]
    for c in range(N+1):
        out.append(("ref",c,"none")); out.append(("ref",c,"set1")); out.append(("ref",c,"set0"))
        i=f.coords.index(c) if c in f.coords else None
        if (vals[i] if i is not None else 0)<VMAX: out.append(("ref",c,"inc"))
        out.append(("posref",c))
        for v in (0,1): out.append(("append",c,v))
    for g in small: out.append(("extend",)+g)
    for pos in range(0,len(f.coords)+1):
        for v in (0,1): out.append(("setv",pos,v))
        for c in range(N+1):
            for v in (None,0,1): out.append(("setcp",pos,c,v))
    if mx+1<=VMAX: out.append(("iadds",1))
    out.append(("iadds",0)); out.append(("imuls",1)); out.append(("imuls",0))
    if mx*2<=VMAX: out.append(("imuls",2))
    for g in small:
        if mx+1<=VMAX: out.append(("iaddf",)+g)
        out.append(("imulf",)+g); out.append(("assign",)+g)
    for src in [(0,),(1,),(0,2),(0,1,2)]:
        for body in itertools.product("naz",repeat=len(src)): out.append(("pop",src,body))
    out.append(("shaperef",))
    for s,e,st,ab in [(0,N,1,False),(0,N,2,False),(1,N+1,1,True),(0,N,1,True)]: out.append(("rangeref",s,e,st,ab))
    if f.coords and max(f.coords)<N: out.append(("updc","inc"))
    if f.coords and max(f.coords)<=N-1: out.append(("updc","rev"))
    for fn in ("id","dbl","zero"):
        if fn!="dbl" or mx*2<=VMAX: out.append(("updp",fn))
    out.append(("clear",))
    return out
def key(f): return (raw(f), f._saved_pos, f._active_range, f.getRankAttrs().getShape())
t0=time.time()
inits=[((),()),((0,1,2),(1,0,2))]
seen={}; frontier=collections.deque()
for init in inits:
    k=key(build(init,[])); seen[k]=(init,[]); frontier.append((init,[]))
trans=0; viol=collections.Counter(); firstv={}; exc=collections.Counter(); rejected_changed=collections.Counter()
while frontier:
    if time.time()-t0>600: print("TIME CAP; frontier",len(frontier)); break
    init,h=frontier.popleft()
    f0=build(init,h)
    for op in ops(f0):
        f=build(init,h); before=raw(f); trans+=1; err=None
        try: apply(f,op)
        except BaseException as ex: err=ex; exc[(op[0],type(ex).__name__)]+=1
        w=wf(f)
        if w:
            viol[(op[0],w)]+=1; firstv.setdefault((op[0],w),(init,h,op,raw(f))); continue
        if err is not None and (isinstance(err,CoordinateError) or (isinstance(err,AssertionError) and op[0] in ("append","extend"))):
            if raw(f)!=before:
                rejected_changed[op[0]]+=1; firstv.setdefault((op[0],"rejected-changed"),(init,h,op,before,raw(f)))
        k=key(f)
        if k not in seen:
            seen[k]=(init,h+[op]); frontier.append((init,h+[op]))
print("states",len(seen),"transitions",trans,"time",round(time.time()-t0,1))
print("violations",dict(viol)); print("rejected-changed",dict(rejected_changed))
print("exceptions",dict(exc))
for k,v in firstv.items(): print(k,v)

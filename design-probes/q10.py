import warnings; warnings.simplefilter("ignore")
from fibertree import Fiber, Tensor, Payload
import itertools, collections, time
M=N=2
def build(hist):
    T=Tensor(rank_ids=["M","N"], shape=[M,N])
    for op in hist: apply(T,op)
    return T
def subf(T,path):
    f=T.getRoot()
    for c in path:
        i=f.coords.index(c); f=f.payloads[i]
    return f
def apply(T,op):
    k=op[0]
    if k=="ref":
        _,pt,act=op
        r=T.getPayloadRef(*pt)
        if len(pt)==2:
            if act=="set1": r <<= 1
            elif act=="set0": r <<= 0
            elif act=="inc" : r += 1
    elif k=="clear":
        subf(T,op[1]).clear()
    elif k=="assign":
        _,path,g=op
        f=subf(T,path)
        src = Fiber(list(g[0]), [ (Fiber(list(x[0]),list(x[1])) if isinstance(x,tuple) else x) for x in g[1]])
        f <<= src
    elif k=="pop":
        _,src,body=op
        a=Fiber(list(src[0]), [Fiber(list(x[0]),list(x[1])) for x in src[1]])
        bi=iter(body)
        for m,(z_n,a_n) in T.getRoot() << a:
            for n,(zr,av) in z_n << a_n:
                if next(bi): zr <<= 1
    elif k=="shaperef":
        f=subf(T,op[1])
        for c,p in f.iterShapeRef(): pass
def key(T):
    order={}
    def rec(f,d):
        order[id(f)]=(d,len([1 for v in order.values() if v[0]==d]))
        return (tuple(f.coords), tuple(rec(p,d+1) if isinstance(p,Fiber) else p.value for p in f.payloads))
    r=rec(T.getRoot(),0)
    ranks=tuple(tuple(order.get(id(f),("stale",len(f.coords))) for f in rk.fibers) for rk in T.ranks)
    return (r,ranks)
def mirror(T):
    lv=[[] for _ in T.ranks]
    def rec(f,d):
        lv[d].append(id(f))
        for p in f.payloads:
            if isinstance(p,Fiber): rec(p,d+1)
    rec(T.getRoot(),0)
    return all(sorted(a)==sorted(id(f) for f in rk.fibers) for a,rk in zip(lv,T.ranks)) and all(f.getOwner() is rk for rk in T.ranks for f in rk.fibers)
def ops(T):
    out=[]
    for m in range(M):
        out.append(("ref",(m,),None))
        for n in range(N):
            cur=T.getPayload(m,n).value
            for act in ("none","set1","set0")+(("inc",) if cur<2 else ()):
                out.append(("ref",(m,n),act))
    paths=[()]+[(c,) for c in T.getRoot().coords]
    for p in paths:
        out.append(("clear",p)); out.append(("shaperef",p))
    # fiber assign root from small depth-2 fibers ; leaf from 1-D
    for g in [((),()), ((0,),(((1,),(1,)),)), ((0,1),(((0,),(1,)),((0,1),(1,1))))]:
        out.append(("assign",(),g))
    for p in paths[1:]:
        for g in [((),()), ((1,),(1,)), ((0,1),(1,0))]:
            out.append(("assign",p,g))
    for src in [((0,),(((0,1),(1,1)),)), ((0,1),(((1,),(1,)),((0,),(1,))))]:
        nleaf=sum(len(x[0]) for x in src[1])
        for body in itertools.product((0,1),repeat=nleaf):
            out.append(("pop",src,body))
    return out
t0=time.time()
seen={key(build([])):[]}; frontier=collections.deque([[]]); trans=0; viol=collections.Counter(); firstv={}; exc=collections.Counter()
maxd=0
while frontier:
    h=frontier.popleft(); maxd=max(maxd,len(h))
    T0=build(h)
    for op in ops(T0):
        T=build(h); trans+=1
        try: apply(T,op)
        except Exception as ex:
            exc[(op[0],type(ex).__name__)]+=1
        if not mirror(T):
            viol[op[0]]+=1; firstv.setdefault(op[0],(h,op)); continue   # do not expand violating states
        k=key(T)
        if k not in seen:
            seen[k]=h+[op]; frontier.append(h+[op])
print("states",len(seen),"transitions",trans,"maxdepth",maxd,"time",time.time()-t0)
print("violations",viol); print("exc",exc)
for k,v in firstv.items(): print(k,v)

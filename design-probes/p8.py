import warnings; warnings.simplefilter("ignore")
from fibertree import Fiber, Tensor, Payload, CoordPayload, Metrics
import itertools
def t(name, fn):
    try:
        print("==", name, "->", fn())
    except BaseException as e:
        print("==", name, "EXC", type(e).__name__, e)
def content(f, prefix=()):
    out={}
    for c,p in zip(f.coords,f.payloads):
        if isinstance(p,Fiber): out.update(content(p,prefix+(c,)))
        else:
            if p.value!=0: out[prefix+(c,)]=p.value
    return out
def raw(f):
    return (tuple(f.coords), tuple(raw(p) if isinstance(p,Fiber) else p.value for p in f.payloads))
# tensor with empty subfiber and explicit zero
def mk():
    root = Fiber([0,1,2],[Fiber([0,2],[1,2]), Fiber([],[]), Fiber([1,2],[0,3])])
    return Tensor.fromFiber(["M","K"], root, shape=[3,3])
T = mk()
t("content", lambda: content(T.getRoot()))
t("splitUniform depth1", lambda: (raw(T.splitUniform(2, depth=1).getRoot())))
t("splitEqual depth1", lambda: (raw(T.splitEqual(1, depth=1).getRoot())))
t("swizzle", lambda: (content(T.swizzleRanks(["K","M"]).getRoot()), raw(T.swizzleRanks(["K","M"]).getRoot())))
t("swap", lambda: (content(T.swapRanks().getRoot()), raw(T.swapRanks().getRoot())))
t("flatten", lambda: (raw(T.flattenRanks().getRoot())))
t("flatten-unflatten", lambda: (raw(T.flattenRanks().unflattenRanks().getRoot()), T.flattenRanks().unflattenRanks()==T))
t("flatten linear", lambda: (raw(T.flattenRanks(coord_style="linear").getRoot())))
t("merge absolute", lambda: (raw(T.mergeRanks(coord_style="absolute").getRoot())))
t("merge relative", lambda: (raw(T.mergeRanks(coord_style="relative").getRoot())))
t("nonEmpty", lambda: raw(T.getRoot().nonEmpty()))
t("countValues/isEmpty", lambda: (T.countValues(), T.getRoot().isEmpty()))
E = Tensor(rank_ids=["M","K"])
t("empty swizzle", lambda: raw(E.swizzleRanks(["K","M"]).getRoot()))
t("empty swap", lambda: raw(E.swapRanks().getRoot()))
t("empty flatten", lambda: raw(E.flattenRanks().getRoot()))
t("empty flatten unflatten", lambda: raw(E.flattenRanks().unflattenRanks().getRoot()))
t("empty split", lambda: raw(E.splitUniform(2).getRoot()))
T3 = Tensor.fromUncompressed(["A","B","C"], [[[1,0],[0,2]],[[0,0],[3,4]]])
for perm in itertools.permutations(["A","B","C"]):
    s = T3.swizzleRanks(list(perm))
    idx = [ ["A","B","C"].index(r) for r in perm]
    exp = { tuple(k[i] for i in idx): v for k,v in content(T3.getRoot()).items()}
    print(perm, content(s.getRoot())==exp, s.swizzleRanks(["A","B","C"])==T3)
t("flatten depth1", lambda: raw(T3.flattenRanks(depth=1).getRoot()))
t("flatten levels2", lambda: raw(T3.flattenRanks(levels=2).getRoot()))
t("flatten levels2 unflatten2", lambda: T3.flattenRanks(levels=2).unflattenRanks(levels=2)==T3)
t("swap depth1", lambda: content(T3.swapRanks(depth=1).getRoot()))
t("split+flatten absolute", lambda: T3.splitUniform(1, depth=2).flattenRanks(depth=2, coord_style="absolute")==T3)

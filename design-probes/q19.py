import warnings; warnings.simplefilter("ignore")
from fibertree import Fiber, Tensor, Payload
import itertools, collections, os, tempfile, random
bad=collections.Counter(); first={}; total=0
def rep(k,i): bad[k]+=1; first.setdefault(k,i)
def nests(shape, vals):
    n=1
    for s in shape: n*=s
    for flat in itertools.product(vals, repeat=n):
        it=iter(flat)
        def build(sh):
            if not sh: return next(it)
            return [build(sh[1:]) for _ in range(sh[0])]
        yield build(list(shape))
def content_nest(n, default, prefix=()):
    out={}
    if not isinstance(n,list):
        return {prefix:n} if n!=default else {}
    for i,x in enumerate(n): out.update(content_nest(x,default,prefix+(i,)))
    return out
def content(f,prefix=(),default=0):
    out={}
    for c,p in zip(f.coords,f.payloads):
        if isinstance(p,Fiber): out.update(content(p,prefix+(c,),default))
        elif p.value!=default: out[prefix+(c,)]=p.value
    return out
def has_explicit(f,default):
    for p in f.payloads:
        if isinstance(p,Fiber):
            if len(p.coords)==0 or has_explicit(p,default): return True
        elif p.value==default: return True
    return False
tmp=tempfile.mkdtemp()
ids="ABCD"
for shape,vals in [((1,),(0,1,1.5)),((3,),(0,1,1.5)),((2,2),(0,1,2)),((2,3),(0,1)),((2,2,2),(0,1)),((1,2,2),(0,1,2))]:
  for default in (0,1):
    for n in nests(shape,vals):
        total+=1
        C=content_nest(n,default)
        rid=list(ids[:len(shape)])
        try:
            T=Tensor.fromUncompressed(rid, n, default=default)
            if content(T.getRoot(),default=default)!=C: rep(("T.fromUncompressed","content",default),(n,))
            if T.getShape()!=list(shape): rep(("T.fromUncompressed","shape",default),(n,T.getShape()))
            if has_explicit(T.getRoot(),default): rep(("T.fromUncompressed","explicit",default),(n,))
        except BaseException as ex:
            rep(("T.fromUncompressed","EXC",type(ex).__name__,default),(n,str(ex)[:50])); T=None
        if T is not None:
            try:
                u=T.getRoot().uncompress()
                if u!=n: rep(("T.uncompress",default, "allzero" if not C else "nz"),(n,u))
            except BaseException as ex:
                rep(("T.uncompress","EXC",type(ex).__name__,default,"allzero" if not C else "nz"),(n,str(ex)[:50]))
            try:
                u=T.getRoot().uncompress(shape=list(shape))
                if u!=n: rep(("T.uncompress(shape)",default, "allzero" if not C else "nz"),(n,u))
            except BaseException as ex:
                rep(("T.uncompress(shape)","EXC",type(ex).__name__,default,"allzero" if not C else "nz"),(n,str(ex)[:50]))
            # yaml
            try:
                T.setName("nm"); fn=os.path.join(tmp,"t.yaml"); T.dump(fn); R=Tensor.fromYAMLfile(fn)
                if not (R==T): rep(("yaml","eq",default),(n,))
                if R.getRankIds()!=T.getRankIds() or R.getShape()!=T.getShape(): rep(("yaml","ids/shape",default),(n,))
                if R.getName()!=T.getName(): rep(("yaml","name"),(n,R.getName()))
            except BaseException as ex:
                rep(("yaml","EXC",type(ex).__name__,default),(n,str(ex)[:50]))
        try:
            F=Fiber.fromUncompressed(n, default=default)
            if content(F,default=default)!=C: rep(("F.fromUncompressed","content",default),(n,))
            u=F.uncompress()
            if u!=n: rep(("F.uncompress",default,"allzero" if not C else "nz"),(n,u))
        except BaseException as ex:
            rep(("F.fromUncompressed/uncompress","EXC",type(ex).__name__,default,"allzero" if not C else "nz"),(n,str(ex)[:50]))
# fromRandom
for seed in range(16):
    for shape in ([3],[2,3],[3,2,2]):
        for dens in (0,0.5,1):
            total+=1
            try:
                a=Tensor.fromRandom(list("ABC"[:len(shape)]), shape, [dens]*len(shape) if dens!=0.5 else [1.0]*(len(shape)-1)+[0.5], seed=seed)
                random.random()
                b=Tensor.fromRandom(list("ABC"[:len(shape)]), shape, [dens]*len(shape) if dens!=0.5 else [1.0]*(len(shape)-1)+[0.5], seed=seed)
                if not a==b or content(a.getRoot())!=content(b.getRoot()): rep(("fromRandom","repro"),(seed,shape,dens))
                C=content(a.getRoot())
                if any(any(c>=s for c,s in zip(pt,shape)) for pt in C): rep(("fromRandom","outside"),(seed,shape,dens))
                n=1
                for s in shape: n*=s
                if dens==1 and len(C)!=n: rep(("fromRandom","not-full"),(seed,shape,dens,len(C)))
                if dens==0 and C: rep(("fromRandom","not-empty"),(seed,shape))
            except BaseException as ex:
                rep(("fromRandom","EXC",type(ex).__name__),(seed,shape,dens,str(ex)[:50]))
print(total,bad)
for k,v in sorted(first.items(), key=str): print(k,v)

import warnings; warnings.simplefilter("ignore")
from fibertree import Fiber, Tensor, Payload
import itertools, collections, copy
def trees2(M,N,vals="-0v"):
    leafs=[c for c in itertools.product(vals,repeat=N)]
    for top in itertools.product([None]+leafs, repeat=M):
        yield top
def mkF(top,N,default=0):
    cs=[];ps=[]
    for m,cells in enumerate(top):
        if cells is None: continue
        lc=[i for i,x in enumerate(cells) if x!='-']; lp=[default if cells[i]=='0' else (1 if cells[i]=='v' else 2) for i in lc]
        cs.append(m); ps.append(Fiber(lc,lp,default=default))
    return Fiber(cs,ps)
def content(f,prefix=(),default=0):
    out={}
    for c,p in zip(f.coords,f.payloads):
        if isinstance(p,Fiber): out.update(content(p,prefix+(c,),default))
        elif p.value!=default: out[prefix+(c,)]=p.value
    return out
def raw(f): return (tuple(f.coords), tuple(raw(p) if isinstance(p,Fiber) else p.value for p in f.payloads))
bad=collections.Counter(); first={}; total=0
def rep(k,i): bad[k]+=1; first.setdefault(k,i)
U=list(trees2(2,2,"-0vw"))
print(len(U))
objs=[(t,mkF(t,2)) for t in U]
# single-object checks
for t,f in objs:
    C=content(f); b=raw(f)
    try:
        if f.isEmpty()!=(not C): rep(("isEmpty",),(t,))
        if f.countValues()!=len(C): rep(("countValues",),(t,f.countValues(),len(C)))
        ne=f.nonEmpty()
        if content(ne)!=C: rep(("nonEmpty","content"),(t,))
        def canon(g):
            return all((isinstance(p,Fiber) and len(p.coords)>0 and canon(p)) or (not isinstance(p,Fiber) and p.value!=0) for p in g.payloads)
        if not canon(ne): rep(("nonEmpty","not-canonical"),(t,raw(ne)))
        if not (copy.deepcopy(f)==f): rep(("deepcopy-eq",),(t,))
        if raw(f)!=b: rep(("mutated-single",),(t,))
    except BaseException as ex:
        rep(("EXC1",type(ex).__name__,str(ex)[:40]),(t,))
# pairs: unowned
import time; t0=time.time()
for (ta,fa),(tb,fb) in itertools.product(objs,repeat=2):
    total+=1
    ba,bb=raw(fa),raw(fb)
    try:
        e=(fa==fb)
    except BaseException as ex:
        rep(("EXC-eq",type(ex).__name__,str(ex)[:40]),(ta,tb)); continue
    if e!=(content(fa)==content(fb)): rep(("eq",e),(ta,tb))
    if raw(fa)!=ba or raw(fb)!=bb: rep(("eq-mutated",),(ta,tb))
print("pairs",total,time.time()-t0)
# tensors pairs on smaller universe
U2=list(trees2(2,2,"-0v"))
for ta,tb in itertools.product(U2,repeat=2):
    A=Tensor.fromFiber(["M","K"],mkF(ta,2),shape=[2,2]); B=Tensor.fromFiber(["M","K"],mkF(tb,2),shape=[2,3])
    na=[len(r.fibers) for r in A.ranks]; nb=[len(r.fibers) for r in B.ranks]
    try: e=(A==B)
    except BaseException as ex:
        rep(("EXC-teq",type(ex).__name__,str(ex)[:40]),(ta,tb)); continue
    if e!=(content(A.getRoot())==content(B.getRoot())): rep(("teq",e),(ta,tb))
    if [len(r.fibers) for r in A.ranks]!=na or [len(r.fibers) for r in B.ranks]!=nb: rep(("teq-ranks-mutated",),(ta,tb))
print(bad)
for k,v in sorted(first.items(), key=str): print(k,v)

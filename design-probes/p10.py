import warnings; warnings.simplefilter("ignore")
from fibertree import Fiber, Tensor, Payload, Metrics
from fibertree.model import Compute, TwoFingerIntersector, SkipAheadIntersector, LeaderFollowerIntersector
def t(name, fn):
    try:
        print("==", name, "->", fn())
    except BaseException as e:
        import traceback; traceback.print_exc()
        print("==", name, "EXC", type(e).__name__, e)
A = Tensor.fromUncompressed(["M","K"], [[1,0,2,0],[0,0,0,0],[0,3,4,5]])
B = Tensor.fromUncompressed(["K"], [1,1,0,1])
def kern(collect, traces=()):
    Z = Tensor(rank_ids=["M"], shape=[3])
    if collect:
        Metrics.beginCollect("/tmp/probe/tr/k")
        for r,ty in traces: Metrics.trace(r, type_=ty)
    bodies=0
    for m,(z,a_k) in Z.getRoot() << A.getRoot():
        for k,(a,b) in a_k & B.getRoot():
            z += a*b; bodies+=1
    d=None
    if collect:
        Metrics.endCollect(); d = Metrics.dump()
    return Z.getRoot(), d, bodies
t("off", lambda: kern(False))
t("on", lambda: kern(True, [("M","iter"),("K","iter"),("K","intersect_0"),("K","intersect_1"),("M","populate_1"),("M","populate_write_0"),("M","populate_read_0")]))
import glob
for fn in sorted(glob.glob("/tmp/probe/tr/k-*.csv")):
    print(fn); print(open(fn).read())
# explicit zero position question
def f2():
    a = Fiber([0,2,3],[0,5,6]); a.getRankAttrs().setId("K")
    b = Fiber([2,3],[1,1]); b.getRankAttrs().setId("K")
    Metrics.beginCollect()
    Metrics.trace("K","intersect_0",consumable=True); Metrics.trace("K","intersect_1",consumable=True); Metrics.trace("K","iter",consumable=True)
    out=[c for c,_ in a & b]
    r=(Metrics.consumeTrace("K","intersect_0"), Metrics.consumeTrace("K","intersect_1"), Metrics.consumeTrace("K","iter"))
    Metrics.endCollect()
    return out, r
t("intersect pos with explicit zero", f2)
def f3():
    a = Fiber([0,2,3],[0,5,6]); a.getRankAttrs().setId("K")
    Metrics.beginCollect()
    Metrics.trace("K","iter",consumable=True)
    out=[c for c,_ in a]
    r=Metrics.consumeTrace("K","iter")
    Metrics.endCollect()
    return out, r
t("iter pos with explicit zero", f3)
T = Tensor.fromUncompressed(["M","K"], [[1,0,2,0],[0,1,0,0],[0,3,4,5]])
for radix in [2,3,"N"]:
    for lat in [1,2,"N"]:
        t(f"numSwaps r={radix} l={lat}", lambda: Compute.numSwaps(T, 0, radix, lat))

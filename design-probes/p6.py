import warnings; warnings.simplefilter("ignore")
import io, contextlib, itertools
from fibertree import Fiber, Tensor, Payload, Codec
def enc(t, desc, shape=None):
    codec = Codec(tuple(desc), [True]*len(desc))
    ranks = t.getRankIds()
    out = codec.get_output_dict(ranks)
    ot = [list() for _ in range(len(desc)+1)]
    buf = io.StringIO()
    with contextlib.redirect_stdout(buf):
        codec.encode(-1, t.getRoot(), ranks, out, ot, shape=shape)
    return out, ot
t = Tensor.fromUncompressed(["M","K"], [[1,0,2],[0,0,0],[0,3,0]])
for desc in itertools.product("UCB", repeat=2):
    try:
        out, ot = enc(t, desc)
        print(desc, out)
        for lvl in ot:
            for f in lvl:
                try: sz = f.getSize()
                except BaseException as e: sz = repr(e)
                print("    ", type(f).__name__, "coords", f.coords, "occ", f.occupancies, "payloads", [p if not hasattr(p,'coords') else type(p).__name__ for p in f.payloads], "size", sz)
    except BaseException as e:
        import traceback; traceback.print_exc()
        print(desc, "EXC", type(e).__name__, e)

import warnings; warnings.simplefilter("ignore")
from fibertree import Fiber, Tensor, Payload
from fibertree.model import Format, Traffic
import itertools, collections, os
D="/tmp/probe/tf"
def write_trace(fn, ranks, rows):
    with open(fn,"w") as f:
        f.write(",".join([r+"_pos" for r in ranks]+ranks+["fiber_pos"])+"\n")
        for stamp, point, pos in rows:
            f.write(",".join(str(x) for x in list(stamp)+list(point)+[pos])+"\n")
# Z[M,N] written under loops M,N ; evict-on M
Z = Tensor(rank_ids=["M","N"], shape=[2,3]); Z.setName("Z")
fmt = {"Z": Format(Z, {"M":{"pbits":8}, "N": {"pbits": 8, "cbits": 8}})}
def buffet_oracle(reads, writes, evict_end, shape, tensor_mask):
    # merge by stamp, write earlier if strictly less else read first
    ev=[]
    r=list(reads); w=list(writes)
    while r or w:
        if w and (not r or w[0][0] < r[0][0]): ev.append(w.pop(0)+(True,))
        else: ev.append(r.pop(0)+(False,))
    groups=collections.OrderedDict()
    for stamp, point, pos, isw in ev:
        obj=tuple(c for c,m in zip(point,tensor_mask) if m)[:-1]+(pos,)
        key=(obj, tuple(stamp[:evict_end]))
        groups.setdefault(key,[]).append((isw,pos))
    fills=sum(1 for g in groups.values() if not g[0][0])
    wbs=sum(1 for g in groups.values() if any(isw and (shape is None or pos<shape) for isw,pos in g))
    return fills,wbs
bad=collections.Counter(); first={}; total=0
# enumerate: for m in 0..1, a sequence of n accesses (n in positions 0..3 where 3 is staging (>= shape 3)) each being read then write
for per_m in itertools.product(itertools.product(range(4), repeat=2), repeat=2):
  for kinds in itertools.product(["r","w","rw"], repeat=4):
    reads=[];writes=[]; ki=0
    for m,seq in enumerate(per_m):
        for j,p in enumerate(seq):
            kind=kinds[ki]; ki+=1
            if 'r' in kind: reads.append(((m,2*j),(m,p),p))
            if 'w' in kind: writes.append(((m,2*j+1),(m,p),p))
    if not reads or not writes: continue
    fr=os.path.join(D,"r.csv"); fw=os.path.join(D,"w.csv")
    write_trace(fr,["M","N"],reads); write_trace(fw,["M","N"],writes)
    for evict_on in ["root","M","N"]:
        total+=1
        try:
            bits, ov = Traffic.buffetTraffic([{"tensor":"Z","rank":"N","type":"payload","evict-on":evict_on}], fmt,
                {("Z","N","payload","read"):fr, ("Z","N","payload","write"):fw}, 100*8, 8)
            got=(bits["Z"]["read"]//8, bits["Z"]["write"]//8)
        except Exception as ex:
            got=("EXC",type(ex).__name__,str(ex)[:50])
        evict_end={"root":0,"M":1,"N":2}[evict_on]
        shape = 3 if evict_on!="N" else None
        exp=buffet_oracle(reads,writes,evict_end,shape,[True,True])
        if got!=exp:
            k=("buffet",evict_on, got if isinstance(got,tuple) and got[0]=="EXC" else "mismatch"); bad[k]+=1; first.setdefault(k,(reads,writes,got,exp))
print(total,bad)
for k,v in first.items(): print(k,v)

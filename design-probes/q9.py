import warnings; warnings.simplefilter("ignore")
from fibertree import Fiber, Tensor, Payload
import itertools, collections
N=4
def cellsN(N): return itertools.product("-0v", repeat=N)
def mk(cells, tag):
    cs=[i for i,x in enumerate(cells) if x!='-']
    ps=[0 if cells[i]=='0' else tag*10+i+1 for i in cs]
    return Fiber(cs,ps)
def raw(f): return (tuple(f.coords), tuple(p.value for p in f.payloads))
bad=collections.Counter(); first={}; total=0
def report(k, info):
    bad[k]+=1; first.setdefault(k, info)
tails=collections.Counter()
for ac in cellsN(N):
  for bc in cellsN(N):
    a=mk(ac,1); b=mk(bc,2); ra,rb=raw(a),raw(b)
    A={i for i,x in enumerate(ac) if x=='v'}; B={i for i,x in enumerate(bc) if x=='v'}
    stored={id(p) for p in a.payloads}|{id(p) for p in b.payloads}
    def pa(c): return a.payloads[a.coords.index(c)]
    def pb(c): return b.payloads[b.coords.index(c)]
    total+=4
    try:
        r=list(a & b)
        if [c for c,_ in r]!=sorted(A&B): report(("and","coords"),(ac,bc,[c for c,_ in r]))
        for c,p in r:
            x,y=Payload.get(p)
            if x is not pa(c) or y is not pb(c): report(("and","identity"),(ac,bc))
        r=list(a | b)
        if [c for c,_ in r]!=sorted(A|B): report(("or","coords"),(ac,bc,[c for c,_ in r]))
        fresh=set()
        for c,p in r:
            m,x,y=Payload.get(p)
            em=("A" if c in A else "")+("B" if c in B else "")
            if m!=em: report(("or","mask"),(ac,bc,c,m))
            for side,obj,ref in (("A",x,pa),("B",y,pb)):
                if side in em:
                    if obj is not ref(c): report(("or","identity"),(ac,bc))
                else:
                    if obj.value!=0 or id(obj) in stored or id(obj) in fresh: report(("or","default-not-fresh"),(ac,bc,c))
                    fresh.add(id(obj))
        r=list(a ^ b)
        if [c for c,_ in r]!=sorted(A^B): report(("xor","coords"),(ac,bc,[c for c,_ in r]))
        for c,p in r:
            m,x,y=Payload.get(p)
            if m!=("A" if c in A else "B"): report(("xor","mask"),(ac,bc))
        r=list(a - b)
        if [c for c,_ in r]!=sorted(A-B): report(("sub","coords"),(ac,bc,[c for c,_ in r]))
        for c,p in r:
            if p is not pa(c): report(("sub","identity"),(ac,bc))
        if raw(a)!=ra or raw(b)!=rb: report(("operand-modified",),(ac,bc))
    except Exception as ex:
        report(("EXC",type(ex).__name__),(ac,bc,str(ex)[:60]))
print(total,bad)
for k,v in first.items(): print(k,v)

import warnings; warnings.simplefilter("ignore")
from fibertree import Fiber, Tensor, Payload
def mk(cs,ps,rid,shape=None,active=None):
    f=Fiber(cs,ps,shape=shape,active_range=active); f.getRankAttrs().setId(rid); return f
a=mk([1,3],[1,1],"A",shape=6,active=(1,5)); b=mk([0,3],[1,1],"B",shape=8,active=(0,7)); z=mk([],[],"Z",shape=9)
def info(x): return (x.getRankAttrs().getId(), x.getActive(), x.isLazy(), x.getDefault() if not isinstance(x.getDefault(),type) else "Fiber")
print("a&b", info(a&b)); print("a|b", info(a|b)); print("a^b", info(a^b)); print("a-b", info(a-b))
print("z<<a", info(z<<a), "z active after:", z.getActive())
print("intersection", info(Fiber.intersection(a,b))); print("lf", info(Fiber.intersection(a,b,style="leader-follower"))); print("union", info(Fiber.union(a,b)))
print("project", info(a.project(lambda c:c+2)), info(a.project(lambda c:c+2, interval=(3,6))), info(a.project(lambda c:c+2, rank_id="P")))
print("prune", info(a.prune(lambda i,c,p: True)))
print("coiterShape", info(Fiber.coiterShape([a,b])), info(Fiber.coiterActiveShape([a,b])), info(Fiber.coiterRangeShape([a,b],2,4)))
# tensor-owned
TA=Tensor.fromUncompressed(["M","K"],[[1,0,2],[0,0,3]]); TB=Tensor.fromUncompressed(["M","K"],[[1,1,0],[0,0,0]])
am=TA.getRoot(); bm=TB.getRoot()
print("owned a&b", info(am&bm))
for m,(ak,bk) in am&bm:
    print("  inner", info(ak&bk), info(ak|bk))
# unowned fiber with own attrs joins tensor
f=Fiber([0,2],[Fiber([1],[5],shape=4,default=0),Fiber([0],[6],shape=4,default=0)], shape=7); f.getRankAttrs().setId("X")
T=Tensor.fromFiber(["P","Q"], f, shape=[3,5], default=0)
r=T.getRoot()
print("joined", r.getRankAttrs().getId(), r.getShape(), r.getActive(), r.payloads[0].getRankAttrs().getId(), r.payloads[0].getShape(all_ranks=False), r.payloads[0].getActive(), T.getShape())
T2=Tensor.fromFiber(["P","Q"], Fiber([0,2],[Fiber([1],[5],shape=4),Fiber([0],[5],shape=4)], shape=7))
print("joined noshape", T2.getShape(), T2.getShape(authoritative=True), T2.getRoot().getActive())
T3=Tensor.fromFiber(["P","Q"], Fiber([0,2],[Fiber([1],[5]),Fiber([0],[5])]))
print("joined estimated", T3.getShape(), T3.getShape(authoritative=True), T3.getRoot().getActive(), T3.getRoot().payloads[0].getActive())

import warnings; warnings.simplefilter("ignore")
from fibertree import Fiber, Tensor, Payload
def mk(shape_auth=True, default=7):
    T=Tensor.fromUncompressed(["A","B","C"], [[[1,default],[default,2]],[[default,default],[3,4]]], default=default, shape=[2,2,2] if shape_auth else None)
    if not shape_auth:
        pass
    T.setFormat("A","U"); T.setFormat("C","U"); T.setMutable(True); T.setName("nm"); T.setColor("blue")
    return T
def info(R):
    ids=R.getRankIds()
    return dict(ids=ids, shape=R.getShape(), auth=R.getShape(authoritative=True), default=R.getDefault(), fmts=[R.getFormat(r) for r in ids], mutable=R.isMutable(), name=R.getName(), color=R.getColor())
T=mk()
print("orig", info(T))
ops={
 "splitUniform d0": lambda T: T.splitUniform(1),
 "splitUniform d1": lambda T: T.splitUniform(1,depth=1),
 "splitEqual rankid C": lambda T: T.splitEqual(1,rankid="C"),
 "splitNonUniform d0": lambda T: T.splitNonUniform([0,1]),
 "splitUnEqual d0": lambda T: T.splitUnEqual([1,1]),
 "truediv": lambda T: T/2,
 "floordiv": lambda T: T//2,
 "swizzle": lambda T: T.swizzleRanks(["C","A","B"]),
 "swap d0": lambda T: T.swapRanks(),
 "swap d1": lambda T: T.swapRanks(depth=1),
 "flatten d0": lambda T: T.flattenRanks(),
 "flatten d1": lambda T: T.flattenRanks(depth=1),
 "flatten l2": lambda T: T.flattenRanks(levels=2),
 "flatten linear": lambda T: T.flattenRanks(coord_style="linear"),
 "flatten pair l2": lambda T: T.flattenRanks(levels=2,coord_style="pair"),
 "merge abs": lambda T: T.mergeRanks(coord_style="absolute"),
 "flatten-unflatten": lambda T: T.flattenRanks().unflattenRanks(),
 "flatten l2-unflatten l2": lambda T: T.flattenRanks(levels=2).unflattenRanks(levels=2),
 "updateCoords": lambda T: T.updateCoords(lambda i,c,p: c),
 "updatePayloads": lambda T: T.updatePayloads(lambda i,c,p: p, depth=2),
 "deepcopy": lambda T: __import__("copy").deepcopy(T),
}
for name,fn in ops.items():
    for auth in (True,False):
        try:
            print(f"{name:26s} auth={auth!s:5s}", info(fn(mk(auth))))
        except BaseException as ex:
            print(f"{name:26s} auth={auth!s:5s} EXC", type(ex).__name__, str(ex)[:80])

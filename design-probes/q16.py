import warnings; warnings.simplefilter("ignore")
from fibertree import Fiber, Tensor, Payload, Rank
from fibertree.core.rank_attrs import RankAttrs
import itertools, collections, copy
def trees2(M,N):
    leafs=[c for c in itertools.product("-0v",repeat=N)]
    for top in itertools.product([None]+leafs, repeat=M):
        yield top
def mkF(top,N):
    cs=[];ps=[]
    for m,cells in enumerate(top):
        if cells is None: continue
        lc=[i for i,x in enumerate(cells) if x!='-']; lp=[0 if cells[i]=='0' else 10*m+i+1 for i in lc]
        cs.append(m); ps.append(Fiber(lc,lp))
    return Fiber(cs,ps)
def walk(obj, acc):
    """collect mutable objects reachable: fibers, payload boxes, ranks, rankattrs"""
    if isinstance(obj, Tensor):
        for r in obj.ranks:
            acc[id(r)]=r; acc[id(r.getAttrs())]=r.getAttrs()
            for f in r.fibers: walk(f,acc)
        if isinstance(obj._root,(Fiber,Payload)): walk(obj._root,acc)
    elif isinstance(obj, Fiber):
        if id(obj) in acc: return
        acc[id(obj)]=obj
        acc[id(obj._rank_attrs)]=obj._rank_attrs
        for p in obj.payloads: walk(p,acc)
    elif isinstance(obj, Payload):
        acc[id(obj)]=obj
        if isinstance(obj.value, tuple):
            for x in obj.value: walk(x,acc)
    return acc
def raw(T):
    def rec(f): return (tuple(f.coords), tuple(rec(p) if isinstance(p,Fiber) else p.value for p in f.payloads), f.getActive() if True else None)
    return (rec(T.getRoot()), tuple(T.getRankIds().__repr__()), repr(T.getShape()), T.getDefault().value, tuple(len(r.fibers) for r in T.ranks), tuple(r.getFormat() for r in T.ranks), T.getName(), T.isMutable())
ops={
 "splitUniform": lambda T: T.splitUniform(1),
 "splitUniform d1": lambda T: T.splitUniform(1,depth=1),
 "splitNonUniform": lambda T: T.splitNonUniform([0,1]),
 "splitEqual": lambda T: T.splitEqual(1),
 "splitUnEqual": lambda T: T.splitUnEqual([1]),
 "truediv": lambda T: T/2, "floordiv": lambda T: T//2,
 "swizzle": lambda T: T.swizzleRanks(["K","M"]),
 "swizzle id": lambda T: T.swizzleRanks(["M","K"]),
 "swap": lambda T: T.swapRanks(),
 "flatten": lambda T: T.flattenRanks(),
 "flatten lin": lambda T: T.flattenRanks(coord_style="linear"),
 "merge abs": lambda T: T.mergeRanks(coord_style="absolute"),
 "flat-unflat": lambda T: T.flattenRanks().unflattenRanks(),
 "updateCoords": lambda T: T.updateCoords(lambda i,c,p: c),
 "updatePayloads": lambda T: T.updatePayloads(lambda i,c,p: p, depth=1),
 "deepcopy": lambda T: copy.deepcopy(T),
 "fiber split": lambda T: T.getRoot().splitUniform(1),
 "fiber split d1": lambda T: T.getRoot().splitUniform(1,depth=1),
 "fiber flatten": lambda T: T.getRoot().flattenRanks(),
 "fiber swap": lambda T: T.getRoot().swapRanks(),
 "fiber copy": lambda T: T.getRoot().copy(),
 "fiber copy noowner": lambda T: T.getRoot().copy(preserve_owner=False),
 "fiber deepcopy": lambda T: copy.deepcopy(T.getRoot()),
 "leaf add": lambda T: T.getRoot().payloads[0] + T.getRoot().payloads[-1],
 "leaf mul": lambda T: T.getRoot().payloads[0] * T.getRoot().payloads[-1],
 "leaf add s": lambda T: T.getRoot().payloads[0] + 2,
 "leaf mul s": lambda T: T.getRoot().payloads[0] * 2,
}
bad=collections.Counter(); first={}; total=0
def rep(k,i): bad[k]+=1; first.setdefault(k,i)
for top in trees2(2,2):
    for name,fn in ops.items():
        T=Tensor.fromFiber(["M","K"], mkF(top,2), shape=[2,2]); T.setName("t")
        if name.startswith("leaf") and not T.getRoot().payloads: continue
        before=raw(T); total+=1
        try:
            R=fn(T)
        except BaseException as ex:
            rep((name,"EXC",type(ex).__name__),(top,str(ex)[:50])); 
            if raw(T)!=before: rep((name,"operand-changed-on-exc"),(top,))
            continue
        if raw(T)!=before: rep((name,"operand-changed"),(top,before,raw(T)))
        a=walk(T,{}); b=walk(R,{})
        shared=[type(a[i]).__name__ for i in a if i in b]
        if shared: rep((name,"shared",tuple(sorted(set(shared)))),(top,))
print(total,bad)
for k,v in sorted(first.items()): print(k,v)

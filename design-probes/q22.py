import warnings; warnings.simplefilter("ignore")
from fibertree import Fiber, Tensor, Payload
import itertools, collections, copy, os, tempfile
def trees2(M,N,vals="-0v"):
    leafs=[c for c in itertools.product(vals,repeat=N)]
    for top in itertools.product([None]+leafs, repeat=M):
        yield top
def mkF(top,N):
    cs=[];ps=[]
    for m,cells in enumerate(top):
        if cells is None: continue
        lc=[i for i,x in enumerate(cells) if x!='-']; lp=[0 if cells[i]=='0' else 1 for i in lc]
        cs.append(m); ps.append(Fiber(lc,lp))
    return Fiber(cs,ps)
def mirror(T):
    if not T.ranks: return None
    lv=[[] for _ in T.ranks]
    def rec(f,d):
        if d>=len(lv): return "too-deep"
        lv[d].append(f)
        for p in f.payloads:
            if isinstance(p,Fiber):
                r=rec(p,d+1)
                if r: return r
            elif d!=len(lv)-1: return "leaf-above-leaf-rank"
    r=rec(T.getRoot(),0)
    if r: return r
    for d,(a,rk) in enumerate(zip(lv,T.ranks)):
        if sorted(map(id,a))!=sorted(map(id,rk.fibers)):
            return f"rank{d}: tree {len(a)} vs list {len(rk.fibers)}"
        for f in rk.fibers:
            if f.getOwner() is not rk: return f"owner{d}"
    for i,rk in enumerate(T.ranks):
        nxt=T.ranks[i+1] if i+1<len(T.ranks) else None
        if rk.next_rank is not nxt: return "chain"
    if len(T.ranks[0].fibers)!=1 or T.ranks[0].fibers[0] is not T._root: return "root"
    return None
tmp=tempfile.mkdtemp()
def yaml_rt(T):
    fn=os.path.join(tmp,"x.yaml"); T.dump(fn); return Tensor.fromYAMLfile(fn)
ctors={
 "fromFiber": lambda top: Tensor.fromFiber(["M","K"], mkF(top,2), shape=[2,2]),
 "fromFiber noshape": lambda top: Tensor.fromFiber(["M","K"], mkF(top,2)),
 "fromFiber owned": lambda top: Tensor.fromFiber(["M","K"], Tensor.fromFiber(["A","B"], mkF(top,2)).getRoot()),
 "setRoot again": lambda top: (lambda T: (T.setRoot(mkF(top,2)), T)[1])(Tensor.fromFiber(["M","K"], mkF(((" v"[1],'v'),None) if False else top,2))),
 "deepcopy": lambda top: copy.deepcopy(Tensor.fromFiber(["M","K"], mkF(top,2), shape=[2,2])),
 "yaml": lambda top: yaml_rt(Tensor.fromFiber(["M","K"], mkF(top,2), shape=[2,2])),
}
xforms={
 "splitUniform d0": lambda T: T.splitUniform(1), "splitUniform d1": lambda T: T.splitUniform(1,depth=1),
 "splitEqual d0": lambda T: T.splitEqual(1), "splitEqual d1": lambda T: T.splitEqual(1,depth=1),
 "splitNonUniform d1": lambda T: T.splitNonUniform([0,1],depth=1), "splitUnEqual d1": lambda T: T.splitUnEqual([1],depth=1),
 "truediv": lambda T: T/2, "floordiv": lambda T: T//2,
 "swizzle": lambda T: T.swizzleRanks(["K","M"]), "swap": lambda T: T.swapRanks(),
 "flatten": lambda T: T.flattenRanks(), "flatten lin": lambda T: T.flattenRanks(coord_style="linear"),
 "merge abs": lambda T: T.mergeRanks(coord_style="absolute"), "merge rel": lambda T: T.mergeRanks(coord_style="relative"),
 "flat-unflat": lambda T: T.flattenRanks().unflattenRanks(),
 "updateCoords": lambda T: T.updateCoords(lambda i,c,p: c+1), "updateCoords d1": lambda T: T.updateCoords(lambda i,c,p: c+1, depth=1),
 "updatePayloads d1": lambda T: T.updatePayloads(lambda i,c,p: p*2, depth=1),
}
bad=collections.Counter(); first={}; total=0
def rep(k,i): bad[k]+=1; first.setdefault(k,i)
for top in trees2(2,2):
    for cn,cf in ctors.items():
        total+=1
        try:
            T=cf(top); m=mirror(T)
            if m: rep(("ctor",cn,m.split(":")[0]),(top,m))
        except BaseException as ex: rep(("ctor",cn,"EXC",type(ex).__name__),(top,str(ex)[:50]))
    for xn,xf in xforms.items():
        total+=1
        try:
            T=Tensor.fromFiber(["M","K"], mkF(top,2), shape=[2,2]); R=xf(T); m=mirror(R)
            if m: rep(("xform",xn,m.split(":")[0]),(top,m))
            m0=mirror(T)
            if m0: rep(("xform-operand",xn,m0.split(":")[0]),(top,m0))
        except BaseException as ex: rep(("xform",xn,"EXC",type(ex).__name__),(top,str(ex)[:50]))
# nests/random/makePopulated
for n in itertools.product((0,1),repeat=4):
    nest=[[n[0],n[1]],[n[2],n[3]]]
    total+=1
    T=Tensor.fromUncompressed(["M","K"],nest); m=mirror(T)
    if m: rep(("ctor","fromUncompressed"),(nest,m))
for seed in range(8):
    for d in (0.5,1.0):
        T=Tensor.fromRandom(["M","K"],[2,3],[1.0,d],seed=seed); m=mirror(T); total+=1
        if m: rep(("ctor","fromRandom"),(seed,d,m))
T=Tensor.makePopulated(["M","K"],[2,2],initial=3); m=mirror(T)
if m: rep(("ctor","makePopulated"),(m,))
E=Tensor(rank_ids=["M","K"]); m=mirror(E)
if m: rep(("ctor","empty"),(m,))
print(total,bad)
for k,v in sorted(first.items(), key=str): print(k,v)

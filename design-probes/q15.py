import warnings; warnings.simplefilter("ignore")
from fibertree import Fiber, Tensor, Payload, Metrics
import glob, os, itertools, collections
D="/tmp/probe/tr2"; os.makedirs(D,exist_ok=True)
def run(Aval,Bval,thr,prefix):
    A=Tensor.fromUncompressed(["M","K"],Aval,shape=[3,4]); B=Tensor.fromUncompressed(["K","N"],Bval,shape=[4,2])
    Z=Tensor(rank_ids=["M","N"],shape=[3,2])
    Metrics.beginCollect(os.path.join(D,prefix)); Metrics.setNumCachedUses(thr)
    for r,t in [("M","iter"),("K","iter"),("N","iter"),("K","intersect_0"),("K","intersect_1"),("M","populate_1"),("N","populate_1"),("N","populate_read_0"),("N","populate_write_0"),("M","populate_read_0"),("M","populate_write_0")]:
        Metrics.trace(r,type_=t)
    log=collections.Counter()
    for m,(z_n,a_k) in Z.getRoot() << A.getRoot():
        log["M"]+=1
        for k,(a,b_n) in a_k & B.getRoot():
            log["K"]+=1
            for n,(z,b) in z_n << b_n:
                log["N"]+=1
                z += a*b
    Metrics.endCollect()
    out={}
    for fn in sorted(glob.glob(os.path.join(D,prefix+"-*.csv"))):
        out[os.path.basename(fn)[len(prefix)+1:]]=open(fn).read()
        os.remove(fn)
    return out,log,Z
Aval=[[1,0,2,0],[0,0,0,0],[0,3,4,5]]; Bval=[[1,1],[0,2],[3,0],[0,0]]
base,log,Z=run(Aval,Bval,1000,"b")
for k,v in base.items(): print(k); print(v)
print(log)
diff=0
for thr in range(2,30):
    o,_,_=run(Aval,Bval,thr,"t")
    if o!=base:
        diff+=1; print("thr",thr,"differs in",[k for k in base if o.get(k)!=base[k]])
print("threshold diffs:",diff)
Metrics.setNumCachedUses(1000)

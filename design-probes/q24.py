import warnings; warnings.simplefilter("ignore")
import io, contextlib, itertools, collections, math
from fibertree import Fiber, Tensor, Payload, Codec
class StubCache(dict):
    miss_count=0; hit_count=0
    def get(self,k,d=None): return dict.get(self,k,d)
def enc(t, desc, shape=None):
    codec = Codec(tuple(desc), [True]*len(desc))
    ranks = t.getRankIds()
    out = codec.get_output_dict(ranks)
    ot = [list() for _ in range(len(desc)+1)]
    with contextlib.redirect_stdout(io.StringIO()):
        codec.encode(-1, t.getRoot(), ranks, out, ot, shape=shape)
    cache=StubCache()
    for ri,lvl in enumerate(ot):
        for fi,f in enumerate(lvl):
            f.setName(f"T_{ri}_{fi}"); f.cache=cache
    return out, ot
def content(f,prefix=()):
    out={}
    for c,p in zip(f.coords,f.payloads):
        if isinstance(p,Fiber): out.update(content(p,prefix+(c,)))
        elif p.value!=0: out[prefix+(c,)]=p.value
    return out
def decode(out, ranks, desc, shape):
    """Independent decoder from per-rank arrays using documented layouts.
    Fibers of a rank are serialized in DFS order. For rank d we walk a cursor through coords_d / payloads_d."""
    D=len(ranks)
    cur_c=[0]*D; cur_p=[0]*D
    prev_occ=[0]*D   # last cumulative occupancy seen per rank (for segment ends)
    res={}
    def fiber(d,prefix):
        ck=out["coords_"+ranks[d].lower()]; pk=out["payloads_"+ranks[d].lower()]
        fmt=desc[d]; S=shape[d]; leaf=(d==D-1)
        child_explicit = (not leaf) and desc[d+1] in "CB"
        # coordinates present
        if fmt=="U":
            coords=list(range(S))
        elif fmt=="C":
            # number of coords in this fiber is not delimited locally -> given by parent occupancy (n passed in)
            raise RuntimeError
        return coords
    # simpler: recursive with explicit count passed from parent
    def rec(d,prefix,count):
        ck=out["coords_"+ranks[d].lower()]; pk=out["payloads_"+ranks[d].lower()]
        fmt=desc[d]; S=shape[d]; leaf=(d==D-1)
        if fmt=="U":
            coords=list(range(S))
        elif fmt=="C":
            coords=ck[cur_c[d]:cur_c[d]+count]; cur_c[d]+=count
        elif fmt=="B":
            mask=ck[cur_c[d]:cur_c[d]+S]; cur_c[d]+=S
            coords=[i for i,b in enumerate(mask) if b]
            assert len(coords)==count, (coords,count)
        if leaf:
            if fmt=="U":
                vals=pk[cur_p[d]:cur_p[d]+S]; cur_p[d]+=S
            else:
                vals=pk[cur_p[d]:cur_p[d]+len(coords)]; cur_p[d]+=len(coords)
            for c,v in zip(coords,vals):
                if v!=0: res[prefix+(c,)]=v
        else:
            child_fmt=desc[d+1]
            if child_fmt in "CB":
                # payloads of this rank hold cumulative occupancies of children (segment ends), cumulative within this fiber
                occs=pk[cur_p[d]:cur_p[d]+len(coords)]; cur_p[d]+=len(coords)
                prev=0
                for c,o in zip(coords,occs):
                    rec(d+1,prefix+(c,),o-prev); prev=o
            else:
                for c in coords:
                    rec(d+1,prefix+(c,),None)
    root_count = out["payloads_root"][0] if out["payloads_root"] else None
    rec(0,(),root_count)
    return res
bad=collections.Counter(); first={}; total=0
def rep(k,i): bad[k]+=1; first.setdefault(k,i)
def tensors(depth,S):
    n=S**depth
    for bits in itertools.product((0,1),repeat=n):
        it=iter(bits)
        def build(d):
            if d==depth: return next(it)*1
            return [build(d+1) for _ in range(S)]
        nest=build(0)
        # distinct values
        cnt=[0]
        def tag(x):
            if isinstance(x,list): return [tag(y) for y in x]
            cnt[0]+=1
            return cnt[0] if x else 0
        yield tag(nest)
for depth,S in ((1,3),(2,2),(2,3),(3,2)):
    rid=list("ABC"[:depth])
    for nest in tensors(depth,S):
        T=Tensor.fromUncompressed(rid,nest,shape=[S]*depth)
        C=content(T.getRoot())
        for desc in itertools.product("UCB",repeat=depth):
            total+=1
            try:
                out,ot=enc(T,desc)
            except BaseException as ex:
                rep(("encode","EXC",type(ex).__name__,desc if depth<3 else desc[:2]),(nest,desc,str(ex)[:60])); continue
            try:
                got=decode(out,rid,desc,[S]*depth)
                if got!=C: rep(("decode","mismatch",desc),(nest,got,C,out))
            except BaseException as ex:
                rep(("decode","EXC",type(ex).__name__,desc),(nest,str(ex)[:60],out))
print(total)
for k,v in sorted(bad.items(), key=str): print(k,v,first[k])

import warnings; warnings.simplefilter("ignore")
from fibertree import Fiber, Tensor, Payload, CoordPayload, Metrics
def t(name, fn):
    try:
        print("==", name, "->", fn())
    except BaseException as e:
        print("==", name, "EXC", type(e).__name__, e)
def f1():
    a = Fiber([1,2,3],[2,3,4]); b = Fiber([2,4],[10,10])
    v = a * b
    a *= b
    return v, a, v == a
t("imul fiber", f1)
def f2():
    a = Fiber([1,2,3],[2,3,4]); b = Fiber([2,4],[10,10])
    v = a + b
    a += b
    return v, a, v == a, a.getActive()
t("iadd fiber", f2)
def f3():
    a = Fiber([1,2,3],[2,3,4], shape=5)
    v = a + 1
    w = 1 + a
    a += 1
    return v, w, a, v == a
t("iadd scalar", f3)
def f4():
    a = Fiber([1,2,3],[2,0,4], shape=5)
    v = a * 2
    w = 2 * a
    a *= 2
    return v, w, a, v == a
t("imul scalar", f4)
def f5():
    a = Fiber([],[]); b = Fiber([2,4],[10,10])
    return a+b, a*b, b+a, b*a
t("empty fibers arith", f5)
def f6():
    a = Fiber([1],[2])   # no shape
    return a + 1
t("add scalar noshape", f6)
# leader-follower
def f7():
    a = Fiber([1,3,5],[1,1,1]); b = Fiber([0,3,4],[1,2,3]); c = Fiber([3,5],[7,8])
    r = Fiber.intersection(a, b, c, style="leader-follower")
    return [(cc, tuple(Payload.get(q) for q in p)) for cc,p in r]
t("leader-follower 3", f7)
def f8():
    a = Fiber([1,3,5],[1,1,1]); b = Fiber([0,3,4],[1,2,3]); c = Fiber([3,5],[7,8])
    r = Fiber.intersection(a, b, c)
    u = Fiber.union(a, b, c)
    return [(cc, tuple(Payload.get(q) for q in p)) for cc,p in r], [(cc, tuple(Payload.get(q) for q in p)) for cc,p in u]
t("intersection/union 3", f8)
def f9():
    a = Fiber([1,3,5],[1,1,1]); b = Fiber([0,3,4],[1,2,3])
    return [(c, m, x.value, y.value) for c,(m,x,y) in a|b], [(c, m, x.value, y.value) for c,(m,x,y) in a^b], [(c,p.value) for c,p in a-b]
t("or xor sub", f9)

import warnings; warnings.simplefilter("ignore")
from fibertree import Fiber, Tensor, Payload, Metrics
from fibertree.model import TwoFingerIntersector, SkipAheadIntersector, LeaderFollowerIntersector
import itertools, collections
def two_finger(a,b):
    i=j=0;n=0
    while i<len(a) and j<len(b):
        n+=1
        if a[i]==b[j]: i+=1;j+=1
        elif a[i]<b[j]: i+=1
        else: j+=1
    return n
def skip_ahead(a,b):
    i=j=0;n=0;cur=None
    while i<len(a) and j<len(b):
        if a[i]==b[j]: n+=1;cur=None;i+=1;j+=1
        elif a[i]<b[j]:
            if cur!=0: n+=1;cur=0
            i+=1
        else:
            if cur!=1: n+=1;cur=1
            j+=1
    return n
bad=collections.Counter(); first={}; total=0
N=4
subsets=[[c for c in range(N) if m>>c&1] for m in range(1<<N)]
# Mode: rows under outer rank M; A[M,K] rows, b[K] fixed vector
for nrows in (1,2,3):
  rowsets = list(itertools.product([s for s in subsets if s], repeat=nrows)) if nrows<3 else list(itertools.product([s for s in subsets if s and len(s)<=2], repeat=3))
  for rows in rowsets:
    for b in subsets:
        if not b: continue
        A=Tensor.fromFiber(["M","K"], Fiber(list(range(nrows)), [Fiber(r,[1]*len(r)) for r in rows]), shape=[nrows,N])
        Bt=Tensor.fromFiber(["K"], Fiber(b,[1]*len(b)), shape=[N])
        exp2=sum(two_finger(r,b) for r in rows); expS=sum(skip_ahead(r,b) for r in rows)
        for mode in ("oneshot","perfiber"):
            total+=1
            tf=TwoFingerIntersector(); sa=SkipAheadIntersector(); lf=LeaderFollowerIntersector()
            Metrics.beginCollect()
            Metrics.trace("K","intersect_0",consumable=True); Metrics.trace("K","intersect_1",consumable=True)
            try:
                for m,a_k in A.getRoot():
                    for k,(x,y) in a_k & Bt.getRoot(): pass
                    if mode=="perfiber":
                        t0=Metrics.consumeTrace("K","intersect_0"); t1=Metrics.consumeTrace("K","intersect_1")
                        tf.addTraces(t0,t1); sa.addTraces(t0,t1); lf.addTraces(t0)
                if mode=="oneshot":
                    t0=Metrics.consumeTrace("K","intersect_0"); t1=Metrics.consumeTrace("K","intersect_1")
                    tf.addTraces(t0,t1); sa.addTraces(t0,t1); lf.addTraces(t0)
                got=(tf.getNumIntersects(), sa.getNumIntersects())
            except Exception as ex:
                got=("EXC",type(ex).__name__,str(ex)[:40])
                try:
                    Metrics.consumeTrace("K","intersect_0"); Metrics.consumeTrace("K","intersect_1")
                except Exception: pass
            Metrics.endCollect()
            if got!=(exp2,expS):
                k=(mode,nrows, got if got[0]=="EXC" else ("tf" if got[0]!=exp2 else "")+("sa" if got[1]!=expS else "")); bad[k]+=1; first.setdefault(k,(rows,b,got,(exp2,expS)))
print(total,bad)
for k,v in first.items(): print(k,v)

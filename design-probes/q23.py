import warnings; warnings.simplefilter("ignore")
from fibertree import Fiber, Tensor, Payload
import itertools, collections, time
M=N=2; VMAX=2
def raw(f): return (tuple(f.coords), tuple(raw(p) if isinstance(p,Fiber) else p.value for p in f.payloads), f._saved_pos)
def rankstate(T): return tuple(tuple(id(f) for f in r.fibers) for r in T.ranks)
def content(f,prefix=()):
    out={}
    for c,p in zip(f.coords,f.payloads):
        if isinstance(p,Fiber): out.update(content(p,prefix+(c,)))
        elif p.value!=0: out[prefix+(c,)]=p.value
    return out
class St:
    def __init__(self, init):
        self.T=Tensor.fromFiber(["M","K"], mkF(init), shape=[M,N]) if init is not None else Tensor(rank_ids=["M","K"],shape=[M,N])
        self.model=dict(content(self.T.getRoot()))
        self.handles=[]   # list of (point, handle)
def mkF(top):
    cs=[];ps=[]
    for m,cells in enumerate(top):
        if cells is None: continue
        lc=[i for i,x in enumerate(cells) if x!='-']; lp=[0 if cells[i]=='0' else 1 for i in lc]
        cs.append(m); ps.append(Fiber(lc,lp))
    return Fiber(cs,ps)
viol=collections.Counter(); firstv={}
def V(k,info): viol[k]+=1; firstv.setdefault(k,info)
def stored_at(T,pt):
    f=T.getRoot()
    for c in pt[:-1]:
        if c not in f.coords: return None
        f=f.payloads[f.coords.index(c)]
    return f.payloads[f.coords.index(pt[-1])] if pt[-1] in f.coords else None
def apply(S,op,check=False,ctx=None):
    T=S.T; k=op[0]
    if k=="get":
        _,pt,mode=op
        b=(raw(T.getRoot()),rankstate(T))
        if mode=="alloc": r=T.getPayload(*pt)
        elif mode=="noalloc": r=T.getPayload(*pt,allocate=False)
        else: r=T.getPayload(*pt,allocate=False,default=7)
        if check:
            if (raw(T.getRoot()),rankstate(T))!=b: V(("get","mutated",mode,len(pt)),ctx)
            if len(pt)==2:
                exp=S.model.get(pt,0)
                present = stored_at(T,pt) is not None
                if mode=="alloc" or present: ok = (r.value==exp)
                elif mode=="noalloc": ok = (Payload.get(r) is None)
                else: ok=(Payload.get(r)==7)
                if not ok: V(("get","value",mode),ctx+(Payload.get(r),exp))
            else:
                sub={q[1:]:v for q,v in S.model.items() if q[0]==pt[0]}
                present = stored_at(T,pt) is not None
                if isinstance(r,Fiber):
                    if content(r)!=sub: V(("get","prefix-content",mode),ctx)
                else:
                    # absent with allocate=False -> default/None
                    if present: V(("get","prefix-notfiber",mode),ctx)
    elif k=="ref":
        _,pt,act=op
        before=dict(S.model)
        r=T.getPayloadRef(*pt)
        if check:
            if stored_at(T,pt) is not r: V(("ref","not-aliased",len(pt)),ctx)
        if len(pt)==2:
            if act=="set1": r<<=1; S.model[pt]=1
            elif act=="set0": r<<=0; S.model.pop(pt,None)
            elif act=="inc": r+=1; S.model[pt]=S.model.get(pt,0)+1
            elif act=="keep": S.handles=(S.handles+[(pt,r)])[-2:]
        if check and content(T.getRoot())!=S.model: V(("ref","content",act),ctx+(content(T.getRoot()),dict(S.model)))
    elif k=="hwrite":
        _,i,val=op
        pt,h=S.handles[i]
        h<<=val
        if val: S.model[pt]=val
        else: S.model.pop(pt,None)
        if check and content(T.getRoot())!=S.model: V(("hwrite","content"),ctx+(content(T.getRoot()),dict(S.model)))
    elif k=="pos":
        _,path,c,sp,refp=op
        f=T.getRoot() if path==() else stored_at(T,path)
        b=(raw(T.getRoot()),rankstate(T))
        if refp:
            r=f.getPositionRef(c,start_pos=sp)
            if check and (r is None or f.coords[r]!=c): V(("posref","wrong"),ctx+(r,))
            if check and content(T.getRoot())!=S.model: V(("posref","content"),ctx)
        else:
            r=f.getPosition(c,start_pos=sp)
            if check:
                exp=f.coords.index(c) if c in f.coords else None
                if r!=exp: V(("pos","wrong",sp is not None),ctx+(r,exp))
                b2=(raw(T.getRoot()),rankstate(T))
                # saved_pos may change legitimately; compare structure only
                strip=lambda x:(x[0][0],x[0][1],x[1])
                if (b[0][:2],b[1])!=(b2[0][:2],b2[1]): V(("pos","mutated"),ctx)
def ops(S):
    T=S.T; out=[]
    for m in range(M):
        for mode in ("alloc","noalloc","dflt"): out.append(("get",(m,),mode))
        out.append(("ref",(m,),None))
        for n in range(N):
            for mode in ("alloc","noalloc","dflt"): out.append(("get",(m,n),mode))
            cur=S.model.get((m,n),0)
            for act in ("none","set1","set0","keep")+(("inc",) if cur<VMAX else ()): out.append(("ref",(m,n),act))
    for i in range(len(S.handles)):
        for val in (0,1,2): out.append(("hwrite",i,val))
    paths=[()]+[(c,) for c in T.getRoot().coords]
    for p in paths:
        f=T.getRoot() if p==() else stored_at(T,p)
        for c in range(max(M,N)):
            legal=[None]+[i for i in range(len(f.coords)) if f.coords[i]<=c]
            for sp in legal:
                out.append(("pos",p,c,sp,False)); out.append(("pos",p,c,sp,True))
    return out
def build(init,h):
    S=St(init)
    for op in h: apply(S,op)
    return S
def key(S):
    T=S.T
    order={}
    def rec(f):
        order[id(f)]=len(order)
        return (tuple(f.coords), tuple(rec(p) if isinstance(p,Fiber) else p.value for p in f.payloads), f._saved_pos)
    r=rec(T.getRoot())
    return (r, tuple(tuple(order.get(id(f),"stale") for f in rk.fibers) for rk in T.ranks), tuple(pt for pt,_ in S.handles), tuple(stored_at(T,pt) is h for pt,h in S.handles))
t0=time.time()
inits=[None, (('0','v'),None), (('-','-'),('v','0'))]
seen={}; fr=collections.deque(); trans=0; exc=collections.Counter()
for init in inits:
    seen[key(build(init,[]))]=1; fr.append((init,[]))
while fr:
    if time.time()-t0>900: print("TIME CAP", len(fr)); break
    init,h=fr.popleft()
    S0=build(init,h)
    for op in ops(S0):
        S=build(init,h); trans+=1
        try: apply(S,op,check=True,ctx=(init,tuple(h),op))
        except BaseException as ex:
            exc[(op[0],type(ex).__name__,str(ex)[:30])]+=1; firstv.setdefault(("EXC",op[0],type(ex).__name__),(init,h,op)); continue
        k=key(S)
        if k not in seen: seen[k]=1; fr.append((init,h+[op]))
print("states",len(seen),"transitions",trans,"time",round(time.time()-t0,1))
print("violations",dict(viol)); print("exc",dict(exc))
for k,v in firstv.items(): print(k,v)

import warnings; warnings.simplefilter("ignore")
from fibertree import Fiber, Tensor, Payload
import time, copy, pickle
N=20000
t0=time.time()
for i in range(N):
    a=Fiber([0,2,3],[1,0,2]); b=Fiber([1,2,3],[1,1,2])
print("2 ctor us", (time.time()-t0)/N*1e6)
t0=time.time()
for i in range(N):
    l=list(a&b)
print("and us", (time.time()-t0)/N*1e6)
t0=time.time()
for i in range(N):
    l=list(a|b)
print("or us", (time.time()-t0)/N*1e6)
T=Tensor.fromUncompressed(["M","K"],[[1,0,2],[0,0,3],[4,5,0]])
t0=time.time()
for i in range(2000):
    T2=copy.deepcopy(T)
print("deepcopy tensor us", (time.time()-t0)/2000*1e6)
t0=time.time()
for i in range(2000):
    T2=T.splitUniform(2)
print("splitUniform tensor us", (time.time()-t0)/2000*1e6)
t0=time.time()
for i in range(2000):
    T2=T.swizzleRanks(["K","M"])
print("swizzle tensor us", (time.time()-t0)/2000*1e6)
t0=time.time()
for i in range(2000):
    T2=Tensor.fromUncompressed(["M","K"],[[1,0,2],[0,0,3],[4,5,0]])
print("fromUncompressed us", (time.time()-t0)/2000*1e6)
t0=time.time()
for i in range(2000):
    Z=Tensor(rank_ids=["M"])
    for m,(z,a_k) in Z.getRoot() << T.getRoot():
        for k,(a_v) in a_k:
            z += a_v
print("kernel us", (time.time()-t0)/2000*1e6)

import warnings; warnings.simplefilter("ignore")
from fibertree import Fiber, Tensor, Payload, Metrics
import itertools, collections, glob, os, copy
D="/tmp/probe/ss"
A=[[1,0,2,0],[0,0,0,0],[0,3,4,5]]; B=[[1,1],[0,2],[3,0],[0,0]]; Vk=[1,1,0,1]
def files(prefix):
    out={}
    for fn in sorted(glob.glob(os.path.join(D,prefix+"-*.csv"))):
        out[os.path.basename(fn)[len(prefix)+1:]]=open(fn).read(); os.remove(fn)
    return out
def k_matvec(traces, thr=None):
    At=Tensor.fromUncompressed(["M","K"],A,shape=[3,4]); Bt=Tensor.fromUncompressed(["K"],Vk,shape=[4]); Z=Tensor(rank_ids=["M"],shape=[3])
    Metrics.beginCollect(os.path.join(D,"s"))
    if thr: Metrics.setNumCachedUses(thr)
    for r,t in traces: Metrics.trace(r,type_=t)
    for m,(z,a_k) in Z.getRoot() << At.getRoot():
        for k,(a,b) in a_k & Bt.getRoot():
            z += a*b
    Metrics.endCollect()
    return (copy.deepcopy(Metrics.dump()), files("s"), repr(Z.getRoot()))
def k_matmul(traces, thr=None):
    At=Tensor.fromUncompressed(["M","K"],A,shape=[3,4]); Bt=Tensor.fromUncompressed(["K","N"],B,shape=[4,2]); Z=Tensor(rank_ids=["M","N"],shape=[3,2])
    Metrics.beginCollect(os.path.join(D,"s"))
    if thr: Metrics.setNumCachedUses(thr)
    for r,t in traces: Metrics.trace(r,type_=t)
    for m,(z_n,a_k) in Z.getRoot() << At.getRoot():
        for k,(a,b_n) in a_k & Bt.getRoot():
            for n,(z,b) in z_n << b_n:
                z += a*b
    Metrics.endCollect()
    return (copy.deepcopy(Metrics.dump()), files("s"), repr(Z.getRoot()))
def k_project(traces, thr=None):
    f=Fiber([2,4,6,8],[4,8,12,16]); f.getRankAttrs().setId("K")
    Metrics.beginCollect(os.path.join(D,"s"))
    if thr: Metrics.setNumCachedUses(thr)
    Metrics.trace("K","project_0")
    out=[(m,p.value) for m,p in f.project(trans_fn=lambda k:k+3, rank_id="M", start_pos=1)]
    Metrics.endCollect()
    return (copy.deepcopy(Metrics.dump()), files("s"), repr(out))
def k_registeronly(traces, thr=None):
    Metrics.beginCollect(os.path.join(D,"s")); Metrics.trace("M"); Metrics.trace("Q","intersect_0"); Metrics.registerRank("Q"); Metrics.matchRanks("Q","R")
    Metrics.endCollect(); return (copy.deepcopy(Metrics.dump()), files("s"), "")
menu=[
 ("matvec-all", lambda: k_matvec([("M","iter"),("K","iter"),("K","intersect_0"),("K","intersect_1"),("M","populate_1"),("M","populate_write_0")])),
 ("matvec-none", lambda: k_matvec([])),
 ("matvec-thr2", lambda: k_matvec([("K","iter"),("K","intersect_1")],thr=2)),
 ("matmul", lambda: k_matmul([("N","iter"),("N","populate_read_0"),("N","populate_write_0"),("K","intersect_0")])),
 ("project", lambda: k_project([])),
 ("regonly", lambda: k_registeronly([])),
]
Metrics.setNumCachedUses(1000)
base={}
for name,fn in menu:
    Metrics.setNumCachedUses(1000)
    base[name]=fn()
bad=collections.Counter(); first={}; total=0
for L in (2,3):
    for seq in itertools.product(range(len(menu)),repeat=L):
        Metrics.setNumCachedUses(1000)
        for i in seq[:-1]: menu[i][1]()
        last=menu[seq[-1]]
        got=last[1](); total+=1
        if got!=base[last[0]]:
            k=(last[0], "dump" if got[0]!=base[last[0]][0] else "", "files" if got[1]!=base[last[0]][1] else "", "out" if got[2]!=base[last[0]][2] else "")
            bad[k]+=1; first.setdefault(k,[menu[i][0] for i in seq])
print(total,bad)
for k,v in first.items(): print(k,v)

import warnings; warnings.simplefilter("ignore")
from fibertree import Fiber, Tensor, Payload, Metrics
import itertools, collections
N=4
def cellsN(N): return itertools.product("-0v", repeat=N)
bad=collections.Counter(); first={}; total=0
def rep(k,i): bad[k]+=1; first.setdefault(k,i)
def presented(cells): return [i for i,x in enumerate(cells) if x=='v']
def rawpos(cells,c): return [i for i,x in enumerate(cells) if x!='-'].index(c)
def mkrow(cells):
    cs=[i for i,x in enumerate(cells) if x!='-']; ps=[0 if cells[i]=='0' else 1 for i in cs]
    return Fiber(cs,ps)
def sim(a,b):
    """two-finger over presented lists -> (matches, a_rows, b_rows) rows=coords traced in order incl trailing peek"""
    i=j=0; ar=[];br=[];m=[]
    while i<len(a) and j<len(b):
        if a[i]==b[j]: ar.append(a[i]); br.append(b[j]); m.append(a[i]); i+=1;j+=1
        elif a[i]<b[j]: ar.append(a[i]); i+=1
        else: br.append(b[j]); j+=1
    if i<len(a): ar.append(a[i])
    if j<len(b): br.append(b[j])
    return m,ar,br
def lexnondec(stamps): return all(stamps[i]<=stamps[i+1] for i in range(len(stamps)-1))
rows2=[c for c in cellsN(N)]
import random
# outer rank M with 2 rows (all pairs of row cells from a reduced set), b fixed vector
rowset=[c for c in cellsN(3)]
for r0,r1 in itertools.product(rowset,repeat=2):
  for bc in rowset:
    total+=1
    top=[]; 
    A=Tensor.fromFiber(["M","K"], Fiber([0,1],[mkrow(r0),mkrow(r1)]), shape=[2,3])
    Bt=Tensor.fromFiber(["K"], mkrow(bc), shape=[3])
    Metrics.beginCollect()
    for r,t in [("M","iter"),("K","iter"),("K","intersect_0"),("K","intersect_1")]: Metrics.trace(r,type_=t,consumable=True)
    bodies=[]; mb=[]
    try:
        for m,a_k in A.getRoot():
            mb.append(m)
            for k,(a,b) in a_k & Bt.getRoot(): bodies.append((m,k))
        tr={(r,t):Metrics.consumeTrace(r,t) for r,t in [("M","iter"),("K","iter"),("K","intersect_0"),("K","intersect_1")]}
    except BaseException as ex:
        rep(("EXC",type(ex).__name__,str(ex)[:40]),(r0,r1,bc))
        try:
            for r,t in [("M","iter"),("K","iter"),("K","intersect_0"),("K","intersect_1")]: Metrics.consumeTrace(r,t)
        except Exception: pass
        Metrics.endCollect(); continue
    Metrics.endCollect()
    rows=[r0,r1]
    live=[m for m in (0,1) if presented(rows[m])]   # rows with content are iterated (empty sub-fibers skipped)
    # expected
    exp_bodies=[]; exp_a=[]; exp_b=[]
    for m in live:
        mm,ar,br=sim(presented(rows[m]),presented(bc))
        exp_bodies+=[(m,k) for k in mm]; exp_a+=[(m,k) for k in ar]; exp_b+=[(m,k) for k in br]
    if mb!=live or bodies!=exp_bodies: rep(("bodies",),(r0,r1,bc,bodies,exp_bodies))
    # M iter trace
    t=tr[("M","iter")]
    if t and t[0]!=["M_pos","M","fiber_pos"]: rep(("M-iter","header"),(t[0],))
    if [x[1] for x in t[1:]]!=live: rep(("M-iter","coords"),(r0,r1,bc,t))
    if [x[2] for x in t[1:]]!=live: rep(("M-iter","pos"),(r0,r1,bc,t))   # position in root = m (both rows stored)
    st=[x[0] for x in t[1:]]
    if any(st[i]>=st[i+1] for i in range(len(st)-1)): rep(("M-iter","stamps"),(t,))
    # K iter trace: one row per body
    t=tr[("K","iter")]
    if t:
        if t[0]!=["M_pos","K_pos","M","K","fiber_pos"]: rep(("K-iter","header"),(t[0],))
        if [(x[2],x[3]) for x in t[1:]]!=exp_bodies: rep(("K-iter","coords"),(r0,r1,bc,t,exp_bodies))
        st=[tuple(x[:2]) for x in t[1:]]
        if any(st[i]>=st[i+1] for i in range(len(st)-1)): rep(("K-iter","stamps"),(t,))
        # pos = ordinal among yielded elements of the lazy result within its fiber
        exp_pos=[]
        for m in live:
            n=len([1 for (mm,k) in exp_bodies if mm==m]); exp_pos+=list(range(n))
        if [x[4] for x in t[1:]]!=exp_pos: rep(("K-iter","pos"),(r0,r1,bc,t))
    elif exp_bodies: rep(("K-iter","missing"),(r0,r1,bc))
    for side,exp,cellsf in (("intersect_0",exp_a,lambda m:rows[m]),("intersect_1",exp_b,lambda m:bc)):
        t=tr[("K",side)]
        if not t:
            if exp: rep((side,"missing"),(r0,r1,bc))
            continue
        if [(x[2],x[3]) for x in t[1:]]!=exp: rep((side,"coords"),(r0,r1,bc,t,exp)); continue
        st=[tuple(x[:2]) for x in t[1:]]
        if not lexnondec(st): rep((side,"stamps"),(r0,r1,bc,t))
        truepos=[rawpos(cellsf(m),k) for m,k in exp]
        got=[x[4] for x in t[1:]]
        if got!=truepos:
            has0 = any('0' in cellsf(m) for m,_ in exp)
            rep((side,"pos","explicit-default-present" if has0 else "NO-explicit-default"),(r0,r1,bc,got,truepos))
print(total)
for k,v in sorted(bad.items(), key=str): print(k,v,first[k])

import warnings; warnings.simplefilter("ignore")
from fibertree import Fiber, Tensor, Payload
import itertools, collections
N=4
def cellsN(N): return itertools.product("-0v", repeat=N)
bad=collections.Counter(); first={}; total=0
def rep(k,i): bad[k]+=1; first.setdefault(k,i)
def raw(f): return (tuple(f.coords), tuple(p.value for p in f.payloads))
def vals(it): return [(c, p.value) for c,p in it]
for cells in cellsN(N):
    cs=[i for i,x in enumerate(cells) if x!='-']; ps=[0 if cells[i]=='0' else 10+i for i in cs]
    stored=dict(zip(cs,ps)); nz=[(c,v) for c,v in zip(cs,ps) if v!=0]
    for shape in (None,N,N+2):
      for active in [None]+[(s,e) for s in range(0,N+1) for e in range(s+1,N+2)]:
        def mk():
            return Fiber(cs,ps,shape=shape,active_range=active)
        f=mk(); A0,A1=f.getActive(); S=f.getShape(all_ranks=False)
        def chk(name, got, exp, mut_expected=None, f=None, before=None):
            global total; total+=1
            if got!=exp: rep((name,"seq"),(cells,shape,active,got,exp))
        # occupancy / active / shape iterations
        try:
            f=mk(); b=raw(f)
            chk("iterOccupancy", vals(f.iterOccupancy()), nz)
            chk("__iter__C", vals(f), nz)
            chk("iterActive", vals(f.iterActive()), [(c,v) for c,v in nz if A0<=c<A1])
            chk("iterShape", vals(f.iterShape()), [(c,stored.get(c,0)) for c in range(0,S)])
            chk("iterActiveShape", vals(f.iterActiveShape()), [(c,stored.get(c,0)) for c in range(A0,A1)])
            if raw(f)!=b: rep(("nonref-mutated",),(cells,shape,active))
            for s in range(-1,N+2):
                for e in range(-1,N+2):
                    chk("iterRange", vals(f.iterRange(s,e)), [(c,v) for c,v in nz if s<=c<e])
                    for sp in range(len(cs)):
                        # legal start_pos: any position; semantic: iteration starts at that position
                        chk("iterRange-sp", vals(f.iterRange(s,e,start_pos=sp)), [(c,v) for c,v in nz if s<=c<e and cs.index(c)>=sp])
                    for step in (1,2,3):
                        chk("iterRangeShape", vals(f.iterRangeShape(s,e,step)), [(c,stored.get(c,0)) for c in range(s,e,step)])
            if raw(f)!=b: rep(("nonref-mutated2",),(cells,shape,active))
            # Ref forms
            g=mk(); out=vals(g.iterActiveShapeRef())
            chk("iterActiveShapeRef", out, [(c,stored.get(c,0)) for c in range(A0,A1)])
            expc=sorted(set(cs)|set(range(A0,A1)))
            if list(g.coords)!=expc: rep(("iterActiveShapeRef","inserted"),(cells,shape,active,list(g.coords),expc))
            g=mk(); out=vals(g.iterShapeRef())
            chk("iterShapeRef", out, [(c,stored.get(c,0)) for c in range(0,S)])
            if list(g.coords)!=sorted(set(cs)|set(range(0,S))): rep(("iterShapeRef","inserted"),(cells,shape,active))
            # U format
            g=mk(); g.getRankAttrs().setFormat("U")
            chk("__iter__U", vals(g), [(c,stored.get(c,0)) for c in range(A0,A1)])
        except BaseException as ex:
            rep(("EXC",type(ex).__name__,str(ex)[:40]),(cells,shape,active))
        # project
        if active is None:
          for a_,b_ in itertools.product((1,2,-1,-2),(0,1,N)):
            tf=lambda c,a_=a_,b_=b_: a_*c+b_
            try:
                f=mk(); p=f.project(trans_fn=tf)
                exp=sorted((tf(c),v) for c,v in nz)
                g1=vals(p); g2=vals(p)
                chk("project", g1, exp); chk("project-again", g2, exp)
                lo=min(tf(A0),tf(A1-1)) if A1>A0 else None
                if A1>A0:
                    expact=(min(tf(A0),tf(A1-1)), max(tf(A0),tf(A1-1))+1)
                    if p.getActive()!=expact: rep(("project","active"),(cells,shape,a_,b_,p.getActive(),expact))
                allc=sorted(tf(c) for c in range(-1,N+1))
                for lo_,hi_ in itertools.combinations(sorted(set(allc)),2):
                    f=mk(); q=f.project(trans_fn=tf, interval=(lo_,hi_))
                    chk("project-interval", vals(q), [(c,v) for c,v in exp if lo_<=c<hi_])
            except BaseException as ex:
                rep(("project","EXC",type(ex).__name__,str(ex)[:40]),(cells,shape,a_,b_))
print(total,bad)
for k,v in sorted(first.items()): print(k,v)

import warnings; warnings.simplefilter("ignore")
from fibertree import Fiber, Tensor, Payload, CoordPayload
import itertools, collections, operator
bad=collections.Counter(); first={}; total=0
def rep(k,i): bad[k]+=1; first.setdefault(k,i)
V=[-2,-1,0,1,2,3,0.5,2.5]
binops={"+":operator.add,"-":operator.sub,"*":operator.mul,"/":operator.truediv,"//":operator.floordiv,
        "==":operator.eq,"!=":operator.ne,"<":operator.lt,"<=":operator.le,">":operator.gt,">=":operator.ge,
        "&":operator.and_,"|":operator.or_,"<<":operator.lshift}
iops={"+=":operator.iadd,"-=":operator.isub,"*=":operator.imul,"/=":operator.itruediv,"<<=":operator.ilshift}
def unbox(x):
    if isinstance(x,CoordPayload): x=x.payload
    return x.value if isinstance(x,Payload) else x
kinds={"box":lambda v:Payload(v),"scalar":lambda v:v,"elem":lambda v:CoordPayload(7,v)}
for (ka,ma),(kb,mb) in itertools.product(kinds.items(),repeat=2):
    if ka=="scalar" and kb=="scalar": continue
    for a,b in itertools.product(V,repeat=2):
        for name,op in binops.items():
            if name in ("/","//") and b==0: continue
            if name in ("&","|","<<") and not (isinstance(a,int) and isinstance(b,int) and a>=0 and b>=0): continue
            total+=1
            exp=op(a,b)
            try:
                got=unbox(op(ma(a),mb(b)))
                if got!=exp or type(got)!=type(exp): rep((name,ka,kb,"value"),(a,b,got,exp))
            except BaseException as ex:
                rep((name,ka,kb,"EXC",type(ex).__name__),(a,b,str(ex)[:40]))
        if ka!="scalar":
            for name,op in iops.items():
                if name=="/=" and b==0: continue
                total+=1
                x=ma(a); box = x.payload if isinstance(x,CoordPayload) else x
                exp = b if name=="<<=" else {"+=":a+b,"-=":a-b,"*=":a*b,"/=":a/b if b else None}[name]
                try:
                    y=op(x,mb(b))
                    if y is not x: rep((name,ka,kb,"not-same-object"),(a,b,type(y).__name__))
                    if box.value!=exp: rep((name,ka,kb,"value"),(a,b,box.value,exp))
                except BaseException as ex:
                    rep((name,ka,kb,"EXC",type(ex).__name__),(a,b,str(ex)[:40]))
print(total)
for k,v in sorted(bad.items(), key=str): print(k,v, first[k])

import warnings; warnings.simplefilter("ignore")
from fibertree import Fiber, Tensor, Payload
import itertools, collections
def trees2(M,N):
    leafs=[c for c in itertools.product("-0v",repeat=N)]
    for top in itertools.product([None]+leafs, repeat=M):
        yield top
def mkF(top,N):
    cs=[];ps=[]
    for m,cells in enumerate(top):
        if cells is None: continue
        lc=[i for i,x in enumerate(cells) if x!='-']; lp=[0 if cells[i]=='0' else 10*m+i+1 for i in lc]
        cs.append(m); ps.append(Fiber(lc,lp))
    return Fiber(cs,ps)
def content(f,prefix=()):
    out={}
    for c,p in zip(f.coords,f.payloads):
        if isinstance(p,Fiber): out.update(content(p,prefix+(c,)))
        elif p.value!=0: out[prefix+(c,)]=p.value
    return out
def wf(f):
    if list(f.coords)!=sorted(set(f.coords)) or len(f.coords)!=len(f.payloads): return False
    kinds={isinstance(p,Fiber) for p in f.payloads}
    if len(kinds)>1: return False
    return all(wf(p) for p in f.payloads if isinstance(p,Fiber)) and all(isinstance(p,Fiber) or (isinstance(p,Payload) and not isinstance(p.value,Payload)) for p in f.payloads)
bad=collections.Counter(); first={}; total=0
def rep(k,i): bad[k]+=1; first.setdefault(k,i)
M,N=3,2
for top in trees2(M,N):
    T=Tensor.fromFiber(["M","K"], mkF(top,N), shape=[M,N])
    C=content(T.getRoot())
    tests={
     "swizzle": (lambda: T.swizzleRanks(["K","M"]), {(k,m):v for (m,k),v in C.items()}),
     "swap":    (lambda: T.swapRanks(), {(k,m):v for (m,k),v in C.items()}),
     "flat-tuple": (lambda: T.flattenRanks(), {((m,k),):v for (m,k),v in C.items()}),
     "flat-pair": (lambda: T.flattenRanks(coord_style="pair"), {((m,k),):v for (m,k),v in C.items()}),
     "flat-linear": (lambda: T.flattenRanks(coord_style="linear"), {(m*N+k,):v for (m,k),v in C.items()}),
     "merge-abs": (lambda: T.mergeRanks(coord_style="absolute"), None),
     "merge-rel": (lambda: T.mergeRanks(coord_style="relative"), None),
     "flat-unflat": (lambda: T.flattenRanks().unflattenRanks(), C),
     "swizzle-inv": (lambda: T.swizzleRanks(["K","M"]).swizzleRanks(["M","K"]), C),
     "split-flatabs": (lambda: T.splitUniform(1,depth=1).flattenRanks(depth=1,coord_style="absolute"), C),
     "spliteq-flatabs": (lambda: T.splitEqual(1,depth=0).flattenRanks(depth=0,coord_style="absolute"), C),
    }
    for name,(fn,exp) in tests.items():
        total+=1
        if exp is None:
            exp=collections.defaultdict(int)
            for (m,k),v in C.items():
                exp[(k,) if name=="merge-abs" else (m+k,)]+=v
            exp=dict(exp)
        try:
            R=fn()
            got=content(R.getRoot())
            if got!=exp: rep((name,"content"),(top,got,exp))
            if not wf(R.getRoot()): rep((name,"wf"),(top,))
        except BaseException as ex:
            rep((name,"EXC",type(ex).__name__),(top,str(ex)[:60]))
print(total,bad)
for k,v in sorted(first.items()): print(k,v)

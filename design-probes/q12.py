import warnings; warnings.simplefilter("ignore")
from fibertree import Fiber, Tensor, Payload
from fibertree.model import Format
import itertools, collections
def trees2(M,N):
    leafs=[c for c in itertools.product("-0v",repeat=N)]
    for top in itertools.product([None]+leafs, repeat=M):
        yield top
def mkT(top,N):
    cs=[];ps=[]
    for m,cells in enumerate(top):
        if cells is None: continue
        lc=[i for i,x in enumerate(cells) if x!='-']; lp=[0 if cells[i]=='0' else 1 for i in lc]
        cs.append(m); ps.append(Fiber(lc,lp))
    return Tensor.fromFiber(["M","K"], Fiber(cs,ps), shape=[len(top),N])
bad=collections.Counter(); first={}; total=0
def rep(k,i): bad[k]+=1; first.setdefault(k,i)
M,N=2,2
specs=[]
for fm,fk in itertools.product("CU",repeat=2):
    specs.append({"M":{"format":fm,"rhbits":1,"fhbits":2,"cbits":3,"pbits":5},"K":{"format":fk,"rhbits":7,"fhbits":11,"cbits":13,"pbits":17},"root":{"hbits":19,"pbits":23}})
specs.append({})
for top in trees2(M,N):
    for spec in specs:
        import copy
        T=mkT(top,N); sp=copy.deepcopy(spec)
        try:
            F=Format(T,sp)
        except Exception as ex:
            rep(("EXC-ctor",type(ex).__name__),(top,spec)); continue
        g=lambda r,k: spec.get(r,{}).get(k,0 if k!="format" else "C")
        root=T.getRoot()
        def ffp(rank,f,shape):
            n = len(f.coords) if g(rank,"format")=="C" else shape
            return g(rank,"fhbits")+(g(rank,"cbits")+g(rank,"pbits"))*n
        subs=[p for p in root.payloads]
        expM=g("M","rhbits")+ffp("M",root,M)
        expK=g("K","rhbits")+sum(ffp("K",f,N) for f in subs)
        expRoot=g("root","hbits")+g("root","pbits")
        total+=1
        try:
            got=(F.getRank("M"),F.getRank("K"),F.getRoot(),F.getTensor())
            if got!=(expM,expK,expRoot,expM+expK+expRoot): rep(("rank/tensor",),(top,spec,got,(expM,expK,expRoot)))
            # subtree from root
            if g("M","format")=="C":
                reach=[p for p in root.payloads if not p.isEmpty()]
                nabs=0
            else:
                reach=[]; nabs=0
                for m in range(M):
                    if m in root.coords: reach.append(root.payloads[root.coords.index(m)])
                    else: nabs+=1
            expST=ffp("M",root,M)+sum(ffp("K",f,N) for f in reach)+nabs*ffp("K",Fiber(),N)
            gotST=F.getSubTree()
            if gotST!=expST: rep(("subtree",g("M","format"),g("K","format")),(top,spec,gotST,expST))
            for m in range(M):
                f=T.getPayload(m)
                e=ffp("K",f,N)
                if F.getFiber(m)!=e: rep(("getFiber",),(top,spec,m))
                if F.getSubTree(m)!=e: rep(("subtree1",),(top,spec,m,F.getSubTree(m),e))
        except Exception as ex:
            rep(("EXC",type(ex).__name__),(top,spec,str(ex)[:50]))
print(total,bad)
for k,v in first.items(): print(k,v)

import warnings; warnings.simplefilter("ignore")
from fibertree import Fiber, Tensor, Payload
from fibertree.model import Format, Traffic
import itertools, collections, os, functools
D="/tmp/probe/tf"
def write_trace(fn, ranks, rows):
    with open(fn,"w") as f:
        f.write(",".join([r+"_pos" for r in ranks]+ranks+["fiber_pos"])+"\n")
        for stamp, point, pos in rows:
            f.write(",".join(str(x) for x in list(stamp)+list(point)+[pos])+"\n")
# One-rank tensor B[K], loop order [K]; reads only
T = Tensor.fromUncompressed(["K"], [1,1,1,1,1,1], shape=[6]); T.setName("B")
fmt = {"B": Format(T, {"K": {"pbits": 8, "cbits": 8}})}
def opt(lines, cap):
    n=len(lines)
    @functools.lru_cache(None)
    def go(i, cache):
        if i==n: return 0
        x=lines[i]
        if x in cache: return go(i+1, cache)
        best=1+go(i+1, cache)  # bypass
        if cap>0:
            if len(cache)<cap: best=min(best, 1+go(i+1, frozenset(cache|{x})))
            else:
                for y in cache:
                    best=min(best, 1+go(i+1, frozenset((cache-{y})|{x})))
        return best
    return go(0, frozenset())
bad=collections.Counter(); first={}; total=0
L=3; n=6
for seq in itertools.product(range(L), repeat=n):
    rows=[((i,),(p,),p) for i,p in enumerate(seq)]
    fn=os.path.join(D,"t.csv"); write_trace(fn,["K"],rows)
    for cap_lines in range(0,4):
        total+=1
        before=set(os.listdir(D))
        try:
            bits, ov = Traffic.cacheTraffic([{"tensor":"B","rank":"K","type":"payload"}], fmt, {("B","K","payload","read"):fn}, cap_lines*8, 8)
            got=bits["B"]["read"]//8
        except Exception as ex:
            got=("EXC",type(ex).__name__,str(ex)[:50])
        after=set(os.listdir(D))
        exp=opt(seq,cap_lines)
        if got!=exp:
            k=("cache", got if isinstance(got,tuple) else "mismatch"); bad[k]+=1; first.setdefault(k,(seq,cap_lines,got,exp))
        if before!=after:
            bad[("leftover",)]+=1; first.setdefault(("leftover",),(after-before))
    # buffet evict-on root: each distinct line filled once
    total+=1
    try:
        bits, ov = Traffic.buffetTraffic([{"tensor":"B","rank":"K","type":"payload","evict-on":"root"}], fmt, {("B","K","payload","read"):fn}, 3*8, 8)
        got=bits["B"]["read"]//8
    except Exception as ex:
        got=("EXC",type(ex).__name__,str(ex)[:50])
    exp=len(set(seq))
    if got!=exp:
        k=("buffet", got if isinstance(got,tuple) else "mismatch"); bad[k]+=1; first.setdefault(k,(seq,got,exp))
print(total,bad)
for k,v in first.items(): print(k,v)

import warnings; warnings.simplefilter("ignore")
from fibertree import Fiber, Tensor, Payload, CoordPayload, Metrics
import traceback
def t(name, fn):
    try:
        print("==", name, "->", fn())
    except Exception as e:
        print("==", name, "EXC", type(e).__name__, e)

# 1. updateCoords depth>0 returns after first
def f1():
    f = Fiber.fromUncompressed([[1,2],[3,4]])
    f.updateCoords(lambda i,c,p: c+10, depth=1)
    return f
t("updateCoords depth1", f1)

# 2. updatePayloads drifting index
def f2():
    f = Fiber([0,1,2],[0,5,6])
    f.updatePayloads(lambda i,c,p: Payload(p.value*10))
    return f
t("updatePayloads w/ explicit zero", f2)

# 3. CoordPayload <<=
def f3():
    cp = CoordPayload(1, 4)
    b = cp
    cp <<= 6
    return (cp, b)
t("CoordPayload <<=", f3)
def f3b():
    cp = CoordPayload(1, 4)
    return cp / 2
t("CoordPayload /", f3b)
def f3c():
    p = Payload(4); q = p
    p /= 2
    return (p, q, p is q)
t("Payload /=", f3c)
def f3d():
    p = Payload(4)
    return p // 2
t("Payload //", f3d)
def f3e():
    p = Payload(4)
    return 8 / p
t("scalar / Payload", f3e)

# 4. union adds to rank
def f4():
    a = Tensor.fromUncompressed(["M","K"], [[1,0],[0,2]])
    b = Tensor.fromUncompressed(["M","K"], [[0,0],[0,2]])
    before = (len(a.ranks[1].fibers), len(b.ranks[1].fibers))
    eq = a == b
    after = (len(a.ranks[1].fibers), len(b.ranks[1].fibers))
    return before, eq, after
t("eq on tensors modifies ranks", f4)

# 5. & with empty op on tuple path
def f5():
    a = Fiber([], [])
    b = Fiber([(0,1),(1,2)], [1,2])
    return list(a & b)
t("empty & tuple", f5)
def f5b():
    a = Fiber([], [])
    b = Fiber([(0,1),(1,2)], [1,2])
    return list(b & a)
t("tuple & empty", f5b)
def f5c():
    a = Fiber([1], [5])
    b = Fiber([(0,1),(1,2)], [1,2])
    return list(a & b)
t("int & tuple", f5c)

# 6. leader follower repeated
def f6():
    a = Fiber([1,3,5],[1,1,1]); b = Fiber([0,1,2,3,4,5],[1,2,3,4,5,6])
    r = Fiber.intersection(a, b, style="leader-follower")
    x = [(c, tuple(Payload.get(q) for q in p)) for c,p in r]
    y = [(c, tuple(Payload.get(q) for q in p)) for c,p in r]
    return x == y, x, y
t("leader-follower twice", f6)

import warnings; warnings.simplefilter("ignore")
from fibertree import Fiber, Tensor, Payload
import itertools, collections, sys
N=5
INF=float("inf")
def fibers(N):
    for cells in itertools.product("-0v", repeat=N):
        cs=[i for i,x in enumerate(cells) if x!='-']
        ps=[0 if cells[i]=='0' else 10+i for i in cs]
        yield cells, cs, ps
def raw(f):
    return [(c, list(zip(p.coords,[q.value for q in p.payloads])), p.getActive()) for c,p in zip(f.coords,f.payloads)]
def oracle_nonuniform(cs, ps, active, splits, pre, post, rel):
    A0,A1=active
    if not cs: return []
    elems=[(c,p) for c,p in zip(cs,ps) if p!=0]
    out=[]
    for i,s in enumerate(splits):
        e = splits[i+1] if i+1 < len(splits) else INF
        if not (e > A0 and s < A1): continue
        mem=[(c,p) for c,p in elems if s-pre <= c < e+post and A0-pre <= c < A1+post]
        if mem:
            out.append((s, [((c-s) if rel else c, p) for c,p in mem], (max(s,A0), min(e,A1))))
    return out
def equal_splits(cs,ps,active,step):
    A0,A1=active
    act=[c for c,p in zip(cs,ps) if p!=0 and A0<=c<A1]
    sp=[]
    for i,c in enumerate(act):
        if i==0: sp.append(A0)
        elif i%step==0: sp.append(c)
    return sp
def unequal_splits(cs,ps,active,sizes):
    A0,A1=active
    act=[c for c,p in zip(cs,ps) if p!=0 and A0<=c<A1]
    sp=[]; 
    # chunks of given sizes, remainder last
    idx=0; bounds=[]
    for sz in sizes:
        if idx>=len(act): break
        bounds.append(idx); idx+=sz
    if idx < len(act): bounds.append(idx)   # corrected: the remainder forms a final partition
    # remainder goes into last chunk -> no new boundary
    for j,b in enumerate(bounds):
        sp.append(A0 if j==0 else act[b])
    return sp
bad=collections.Counter(); total=0; first={}
def check(kind, cells, active, args, r, exp):
    global total
    total+=1
    if r!=exp:
        k=(kind,)+(("EXC",r[1]) if r and r[0]=="EXC" else ("mismatch",))
        bad[k]+=1
        first.setdefault(k,(cells,active,args,r,exp))
def run(fn):
    try: return raw(fn())
    except Exception as ex: return ("EXC",type(ex).__name__+":"+str(ex)[:60])
allsplits=[list(s) for k in range(0,4) for s in itertools.combinations(range(0,N+1),k)]
for cells, cs, ps in fibers(N):
    for active in [None]+[(s,e) for s in range(0,N+1) for e in range(s+1,N+2)]:
        f0=Fiber(cs,ps,active_range=active); act=f0.getActive()
        for pre in range(2):
            for post in range(2):
                for rel in (False,True):
                    for sp in allsplits:
                        f=Fiber(cs,ps,active_range=active)
                        r=run(lambda: f.splitNonUniform(sp,pre_halo=pre,post_halo=post,relativeCoords=rel))
                        check("nonuni",cells,active,(sp,pre,post,rel),r,oracle_nonuniform(cs,ps,act,sp,pre,post,rel))
                    for step in range(1,N+1):
                        f=Fiber(cs,ps,active_range=active)
                        r=run(lambda: f.splitEqual(step,pre_halo=pre,post_halo=post,relativeCoords=rel))
                        check("equal",cells,active,(step,pre,post,rel),r,oracle_nonuniform(cs,ps,act,equal_splits(cs,ps,act,step),pre,post,rel))
                    for sizes in [[1],[2],[1,1],[1,2],[2,1],[3,1],[1,1,1],[2,2]]:
                        f=Fiber(cs,ps,active_range=active)
                        r=run(lambda: f.splitUnEqual(sizes,pre_halo=pre,post_halo=post,relativeCoords=rel))
                        check("unequal",cells,active,(sizes,pre,post,rel),r,oracle_nonuniform(cs,ps,act,unequal_splits(cs,ps,act,sizes),pre,post,rel))
print(total,bad)
for k,v in first.items(): print(k,v)

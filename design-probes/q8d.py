# populate with non-zero leaf default (variant of q8 for the mutant trial)
import warnings; warnings.simplefilter("ignore")
from fibertree import Fiber, Tensor, Payload
import itertools, collections
N=3; D=7
bad=collections.Counter(); first={}
for zc in itertools.product("-0v",repeat=N):
  for ac in itertools.product("-0v",repeat=N):
    offered=[i for i,x in enumerate(ac) if x=='v']
    for body in itertools.product(["leave","assign","zero"],repeat=len(offered)):
        Z=Tensor(rank_ids=["K"],default=D,shape=[N]); z=Z.getRoot()
        for i,x in enumerate(zc):
            if x!='-': z.getPayloadRef(i).__ilshift__(D if x=='0' else 10+i)
        A=Tensor(rank_ids=["K"],default=D,shape=[N]); a=A.getRoot()
        for i,x in enumerate(ac):
            if x!='-': a.getPayloadRef(i).__ilshift__(D if x=='0' else 20+i)
        model={c:p.value for c,p in zip(z.coords,z.payloads)}
        try:
            for (c,(zr,av)),act in zip(z<<a, body):
                if act=="assign": zr<<=5; model[c]=5
                elif act=="zero": zr<<=D; model[c]=D
            got={c:p.value for c,p in zip(z.coords,z.payloads) if p.value!=D}
            exp={c:v for c,v in model.items() if v!=D}
            if got!=exp: bad["content"]+=1; first.setdefault("content",(zc,ac,body,got,exp))
            for c in offered:
                if model.get(c,D)==D and c in z.coords: bad["left-behind"]+=1; first.setdefault("left-behind",(zc,ac,body,list(z.coords)))
        except Exception as ex:
            bad["EXC "+type(ex).__name__]+=1; first.setdefault("EXC",(zc,ac,body,str(ex)[:40]))
print(dict(bad)); 
for k,v in first.items(): print(k,v)

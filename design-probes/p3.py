import warnings; warnings.simplefilter("ignore")
from fibertree import Fiber, Tensor, Payload, CoordPayload, Metrics
def t(name, fn):
    try:
        print("==", name, "->", fn())
    except BaseException as e:
        print("==", name, "EXC", type(e).__name__, e)
def rankinfo(T):
    return [[id(f) for f in r.fibers] for r in T.ranks]
def walk(T):
    levels=[[] for _ in T.ranks]
    def rec(f,d):
        levels[d].append(id(f))
        for p in f.payloads:
            if isinstance(p,Fiber): rec(p,d+1)
    rec(T.getRoot(),0)
    return levels
def consistent(T):
    return [sorted(a)==sorted(b) for a,b in zip(rankinfo(T), walk(T))]

# populate: z has explicit zero at coordinate in a, body leaves alone
def f1():
    z = Fiber([1,3],[0,7]); a = Fiber([1,2,3],[1,1,1])
    seen=[]
    for c,(zr,av) in z << a:
        seen.append((c,zr.value))
    return seen, z
t("lshift explicit zero untouched", f1)
def f2():
    z = Fiber([1,3],[5,7]); a = Fiber([1,2,3],[1,1,1])
    for c,(zr,av) in z << a:
        if c==1: zr <<= 0
        if c==2: zr += 4
    return z
t("lshift set to default", f2)
def f3():
    Z = Tensor(rank_ids=["M","N"]); A = Tensor.fromUncompressed(["M","N"], [[1,0,2],[0,0,3]])
    for m,(z_n,a_n) in Z.getRoot() << A.getRoot():
        for n,(zr,av) in z_n << a_n:
            if (m,n)==(0,2): zr += av
    return Z.getRoot(), consistent(Z), [len(r.fibers) for r in Z.ranks]
t("nested lshift partial", f3)
def f4():
    Z = Tensor(rank_ids=["M","N"]); A = Tensor.fromUncompressed(["M","N"], [[1,0,2],[0,0,3]])
    for m,(z_n,a_n) in Z.getRoot() << A.getRoot():
        for n,(zr,av) in z_n << a_n:
            pass
    return Z.getRoot(), consistent(Z), [len(r.fibers) for r in Z.ranks]
t("nested lshift none", f4)
def f5():
    # z has a pre-existing sub-fiber w/ explicit zero only
    Z = Tensor.fromFiber(["M","N"], Fiber([0],[Fiber([1],[0])]))
    A = Tensor.fromUncompressed(["M","N"], [[1,0,2],[0,0,3]])
    for m,(z_n,a_n) in Z.getRoot() << A.getRoot():
        for n,(zr,av) in z_n << a_n:
            pass
    return Z.getRoot(), consistent(Z), [len(r.fibers) for r in Z.ranks]
t("nested lshift preexisting zero subfiber", f5)
def f6():
    # source has explicit zero / empty subfiber
    z = Fiber(); a = Fiber([1,2,3],[1,0,1])
    return [(c, zr.value, av.value) for c,(zr,av) in z << a], z
t("source explicit zero", f6)
def f7():
    # uncompressed source
    A = Tensor.fromUncompressed(["K"], [1,0,2,0]); A.setFormat("K","U")
    z = Fiber()
    out = [(c, zr.value, av.value) for c,(zr,av) in z << A.getRoot()]
    return out, z, z.getActive()
t("U source", f7)
def f8():
    # z non-empty default !=0
    Z = Tensor(rank_ids=["K"], default=9); A=Tensor.fromUncompressed(["K"], [1,9,2,9])
    for c,(zr,av) in Z.getRoot() << A.getRoot():
        if c==0: zr <<= 9
        else: zr <<= 0
    return Z.getRoot()
t("nonzero default", f8)
# body that writes explicit default into new subfiber
def f9():
    Z = Tensor(rank_ids=["M","N"]); A = Tensor.fromUncompressed(["M","N"], [[1,0,2],[0,0,3]])
    for m,(z_n,a_n) in Z.getRoot() << A.getRoot():
        r = z_n.getPayloadRef(1)   # creates explicit zero in new subfiber
    return Z.getRoot(), consistent(Z)
t("body makes explicit zero in new subfiber", f9)

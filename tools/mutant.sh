#!/bin/bash
# tools/mutant.sh <patch.diff> <property-id>... : apply the patch in a scratch
# worktree of /repo (outside /repo and /verif), run the pinned suite there, run
# the named checks against it (VERIF_REPO), remove the worktree.  Evidence files
# written by these runs are restored afterwards.
set -u
patch=$(readlink -f "$1"); shift
wt=$(mktemp -d /tmp/mutwt-XXXXXX)
rmdir "$wt"
git -C /repo worktree add -q --detach "$wt" HEAD || exit 2
trap 'git -C /repo worktree remove --force "$wt" >/dev/null 2>&1; rm -rf "$wt"' EXIT
if ! git -C "$wt" apply "$patch"; then echo "PATCH DOES NOT APPLY"; exit 2; fi
echo "== suite with mutant:"; /verif/tools/baseline.py "$wt" | head -5
cd /verif
mkdir -p /tmp/evsave.$$; cp -a evidence/. /tmp/evsave.$$/ 2>/dev/null
for id in "$@"; do
  echo "== check $id against mutant (tier ${TIER:-quick}):"
  VERIF_REPO="$wt" ./check "$id" --tier "${TIER:-quick}" 2>&1 | grep -E "^(VIOLATION|KNOWN-FINDING|HARNESS|C[0-9]+ tier)|family=" | head -${LINES_MAX:-12}
done
cp -a /tmp/evsave.$$/. evidence/ 2>/dev/null; rm -rf /tmp/evsave.$$

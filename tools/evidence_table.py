#!/venv/bin/python
"""Print a markdown table of what the committed evidence files say (used for DESIGN.md section 9)."""
import glob, json, os
V = os.path.dirname(os.path.dirname(os.path.abspath(__file__)))
print("| property | level | tier | evaluations | non-trivial | states / transitions | distinct outcomes | exhaustive | known findings seen | wall s |")
print("|---|---|---|---|---|---|---|---|---|---|")
for fn in sorted(glob.glob(os.path.join(V, "evidence", "C*.json"))):
    e = json.load(open(fn)); c = e["coverage"]
    st = "%s / %s" % (c.get("states", "-"), c.get("transitions", "-")) if c.get("states") else "-"
    print("| %s | %s | %s | %d | %d | %s | %s | %s | %s | %.0f |" % (
        e["property_id"], e["level"], e["tier"], c["evaluations"], c["distinct_nontrivial"], st,
        c.get("distinct_outcomes", "-"), c.get("exhaustive"), ", ".join(sorted(c.get("known_findings_seen", {}))) or "-", e["wall_s"]))

#!/bin/bash
# Run a check against a filed seeded change without touching /repo: tools/try_seed.sh <seed-name> <check-id> [check args...]
name=$1; cid=$2; shift 2
wt=$(mktemp -d /tmp/tryseed-XXXXXX); rmdir $wt
git -C /repo worktree add -q --detach $wt HEAD || exit 2
git -C $wt apply /verif/seeded/$name/patch.diff || { git -C /repo worktree remove --force $wt; exit 2; }
cd /verif; VERIF_REPO=$wt ./check $cid "$@" 2>&1 | grep -E "^(C[0-9]|HARNESS|   family=|   case=)" | cut -c1-300 | head -${TRY_LINES:-12}
git -C /repo worktree remove --force $wt

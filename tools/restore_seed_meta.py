#!/venv/bin/python
"""Re-evaluations rewrite seeded/*/meta.json; put the descriptive fields of the committed version back."""
import glob, json, subprocess
for mp in sorted(glob.glob('/verif/seeded/*/meta.json')):
    rel = mp[len('/verif/'):]
    r = subprocess.run(['git', '-C', '/verif', 'show', 'HEAD:' + rel], capture_output=True, text=True)
    if r.returncode:
        continue
    old = json.loads(r.stdout)
    new = json.load(open(mp))
    ch = False
    for k in ('change', 'needs_to_manifest', 'note', 'source'):
        if old.get(k) and not new.get(k):
            new[k] = old[k]
            ch = True
    if new.get('suite_with_patch', '').startswith('not re-run') and old.get('suite_with_patch', '').startswith('stable_pass'):
        new['suite_with_patch'] = old['suite_with_patch']
        ch = True
    if ch:
        json.dump(new, open(mp, 'w'), indent=1)
        print('restored', rel)

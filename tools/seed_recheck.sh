#!/bin/bash
# Re-evaluate every filed seeded change against the current /repo HEAD and the current checks.
# usage: tools/seed_recheck.sh [name-glob]   (e.g. 'C0*')
cd /verif
for d in seeded/${1:-*}/; do
  n=$(basename $d)
  prop=$(/venv/bin/python -c "import json;print(json.load(open('$d/meta.json'))['property'])")
  checks=$(/venv/bin/python -c "import json;m=json.load(open('$d/meta.json'));print(' '.join(sorted(set([m['property']]+m.get('detected_by',[])))))")
  needs=$(/venv/bin/python -c "import json;print(json.load(open('$d/meta.json')).get('needs_to_manifest',''))")
  echo "=== $n ($checks)"
  cp $d/meta.json /tmp/meta.$n.$$
  tools/seed_eval.py $d/patch.diff $d/demo.py $n $prop $checks --keep $SEED_EVAL_FLAGS 2>&1 | grep -E "^(valid_seed|PATCH|DEMO|SUITE)" | cut -c1-200
  # keep the descriptive fields of the old meta
  /venv/bin/python - <<PY
import json
old=json.load(open('/tmp/meta.$n.$$')); new=json.load(open('$d/meta.json'))
for k in ('change','needs_to_manifest','note','source','suite_with_patch'):
    if k in old: new[k]=old[k]
json.dump(new,open('$d/meta.json','w'),indent=1)
PY
  rm -f /tmp/meta.$n.$$
done

#!/venv/bin/python
"""Evaluate a seeded change and (optionally) file it under /verif/seeded/<name>/.

usage: tools/seed_eval.py <patch.diff> <demo.py> <name> <property> [check-id ...] [--tier quick|thorough] [--keep]
                          [--needs "text"]

Steps (all in a scratch worktree of /repo outside /repo and /verif, removed at the end):
  1. demo passes on the unmodified tree
  2. patch applies; pinned suite still passes (453 stable tests)
  3. demo fails with the patch
  4. each named check is run against the patched tree (VERIF_REPO) and its verdict recorded
"""
import json
import os
import shutil
import subprocess
import sys
import tempfile
import time

V = os.path.dirname(os.path.dirname(os.path.abspath(__file__)))


def sh(cmd, **kw):
    return subprocess.run(cmd, shell=isinstance(cmd, str), stdout=subprocess.PIPE, stderr=subprocess.STDOUT,
                          text=True, **kw)


def main():
    args = sys.argv[1:]
    tier = "quick"
    keep = False
    needs = ""
    if "--tier" in args:
        i = args.index("--tier")
        tier = args[i + 1]
        del args[i:i + 2]
    if "--needs" in args:
        i = args.index("--needs")
        needs = args[i + 1]
        del args[i:i + 2]
    if "--keep" in args:
        keep = True
        args.remove("--keep")
    nosuite = False
    if "--no-suite" in args:
        # re-evaluation of a seed whose suite run was recorded when it was filed (speeds up the final recheck)
        nosuite = True
        args.remove("--no-suite")
    patch, demo, name, prop = args[:4]
    checks = args[4:] or [prop]
    patch, demo = os.path.abspath(patch), os.path.abspath(demo)
    wt = tempfile.mkdtemp(prefix="seedwt-", dir="/tmp")
    os.rmdir(wt)
    r = sh(["git", "-C", "/repo", "worktree", "add", "-q", "--detach", wt, "HEAD"])
    if r.returncode:
        print(r.stdout)
        return 2
    meta = {"name": name, "property": prop, "needs_to_manifest": needs, "tier": tier,
            "repo_head": sh("git -C /repo rev-parse --short HEAD").stdout.strip(), "ran": []}
    ok = True
    try:
        env = dict(os.environ, PYTHONPATH=wt, PYTHONDONTWRITEBYTECODE="1")
        r = sh(["/venv/bin/python", demo], env=env, cwd=wt)
        meta["demo_on_clean_tree_rc"] = r.returncode
        meta["ran"].append("demo on clean tree: rc=%d" % r.returncode)
        if r.returncode != 0:
            print("DEMO FAILS ON CLEAN TREE:\n" + r.stdout[-1500:])
            ok = False
        r = sh(["git", "-C", wt, "apply", patch])
        if r.returncode:
            print("PATCH DOES NOT APPLY:\n" + r.stdout)
            return 2
        if nosuite:
            meta["suite_with_patch"] = "not re-run (recorded when the change was filed)"
            meta["ran"].append("pinned suite with patch: not re-run in this re-evaluation")
        else:
            r = sh([os.path.join(V, "tools", "baseline.py"), wt])
            meta["suite_with_patch"] = r.stdout.strip().splitlines()[0] if r.stdout.strip() else ""
            meta["ran"].append("pinned suite with patch: " + meta["suite_with_patch"])
            if r.returncode != 0:
                print("SUITE CATCHES IT:\n" + r.stdout[-1500:])
                ok = False
        r = sh(["/venv/bin/python", demo], env=env, cwd=wt)
        meta["demo_with_patch_rc"] = r.returncode
        meta["demo_with_patch_tail"] = r.stdout.strip()[-400:]
        meta["ran"].append("demo with patch: rc=%d" % r.returncode)
        if r.returncode == 0:
            print("DEMO DOES NOT FAIL WITH PATCH")
            ok = False
        meta["valid_seed"] = ok
        # run the checks
        # (runs with VERIF_REPO write their evidence to evidence-scratch/, the committed evidence is not touched)
        meta["checks"] = {}
        for cid in checks:
            t0 = time.time()
            r = sh([os.path.join(V, "check"), cid, "--tier", tier], env=dict(os.environ, VERIF_REPO=wt), cwd=V)
            lines = r.stdout.splitlines()
            viol = [l for l in lines if l.startswith("VIOLATION")]
            fams = [l.strip() for l in lines if l.strip().startswith("family=")]
            meta["checks"][cid] = {"rc": r.returncode, "violation_lines": len(viol), "first_signatures": fams[:4],
                                   "summary": lines[-1] if lines else "", "wall_s": round(time.time() - t0, 1)}
            meta["ran"].append("./check %s --tier %s against the patched tree: rc=%d, %d VIOLATION lines" % (
                cid, tier, r.returncode, len(viol)))
            print("%s: rc=%d violations=%d  %s" % (cid, r.returncode, len(viol), fams[:2]))
        meta["detected_by"] = [c for c, v in meta["checks"].items() if v["rc"] == 1 and v["violation_lines"]]
        print("valid_seed=%s detected_by=%s" % (ok, meta["detected_by"]))
        if keep and ok:
            d = os.path.join(V, "seeded", name)
            os.makedirs(d, exist_ok=True)
            for src, dst in ((patch, os.path.join(d, "patch.diff")), (demo, os.path.join(d, "demo.py"))):
                if os.path.abspath(src) != os.path.abspath(dst):
                    shutil.copy(src, dst)
            old = {}
            mp = os.path.join(d, "meta.json")
            if os.path.exists(mp):
                old = json.load(open(mp))
                for k in ("needs_to_manifest",):
                    if not meta.get(k):
                        meta[k] = old.get(k, "")
            with open(mp, "w") as f:
                json.dump(meta, f, indent=1)
            print("filed under", d)
    finally:
        sh(["git", "-C", "/repo", "worktree", "remove", "--force", wt])
        shutil.rmtree(wt, True)
    return 0 if ok else 1


if __name__ == "__main__":
    sys.exit(main())

#!/venv/bin/python
"""Refresh the generated tables of DESIGN.md (between HTML comment markers)."""
import os, re, subprocess
V = os.path.dirname(os.path.dirname(os.path.abspath(__file__)))
p = os.path.join(V, "DESIGN.md")
s = open(p).read()
def sub(name, cmd):
    global s
    out = subprocess.check_output([os.path.join(V, "tools", cmd)], text=True)
    b, e = "<!-- %s-begin -->" % name, "<!-- %s-end -->" % name
    assert b in s and e in s, name
    s = s[:s.index(b) + len(b)] + "\n" + out + s[s.index(e):]
sub("seeded-table", "seeded_table.py")
open(p, "w").write(s)

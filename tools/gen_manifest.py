#!/venv/bin/python
"""Regenerate /verif/MANIFEST.json from the table below (single source of truth)."""
import json, os
V = os.path.dirname(os.path.dirname(os.path.abspath(__file__)))

E2 = "bounded exhaustive enumeration of inputs/configurations/programs on the real code against an independent reference oracle (small-scope explicit-state exploration, no sampling)"
E1 = "explicit-state breadth-first search over operation histories on the real code (canonical state hashing, invariant + lock-step reference model on every transition)"

# id -> (category, technique, level text, level note, design ref)
CHECKS = {
 "C04": ("exploration", E2,
         "Every ordered pair / k-tuple of fibers of the stated small universes (leaf, sub-fiber, tuple-coordinate, mixed-arity, uncompressed-format and n-ary families) is run through the real operators and compared with set algebra, payload identity, mask and freshness oracles; operands and owning tensors are snapshotted before and after. Exhaustive within the bounds, which contain every relative order of the last elements of both operands and every explicit-default placement.",
         "Trusted: the harness's construction of operands through Fiber()/Tensor.fromFiber and raw reads of coords/payloads; nothing is claimed beyond N<=7 coordinates, depth 2, k<=4.", "DESIGN.md §3 C04"),
}
NOT_YET = {}

def main():
    props = [json.loads(l) for l in open(os.path.join(V, "properties.jsonl"))]
    checks = []
    na = []
    for p in props:
        pid = p["id"]
        if pid in CHECKS:
            cat, tech, text, note, ref = CHECKS[pid]
            checks.append({
                "property_id": pid,
                "quick_cmd": "./check %s --tier quick" % pid,
                "thorough_cmd": "./check %s --tier thorough" % pid,
                "evidence_file": "/verif/evidence/%s.json" % pid,
                "replay_cmd_template": "./check %s --replay {path}" % pid,
                "engine": "mc",
                "level_claimed": {"category": cat, "text": text, "design_ref": ref},
                "level_note": note,
                "technique": tech,
            })
        else:
            na.append({"property_id": pid, "reason": NOT_YET.get(pid, "check not built yet in this session (planned: bounded exhaustive exploration, see DESIGN.md §3); not claimed until it runs silently on the unchanged tree")})
    man = {
        "version": 1,
        "setup_cmd": "cd /verif && /venv/bin/python -c \"import sys; sys.path[:0]=['/repo','/verif']; import fibertree, mc.core, mc.obs, mc.univ; print('ok', fibertree.__file__)\"",
        "hooks": {
            "guard": "FIBERTREE_VERIF",
            "enable": "no instrumentation is compiled in: checks import /repo's working tree directly (PYTHONPATH=/repo) and observe through public API and the documented public attributes; ./check exports FIBERTREE_VERIF=1 but no code in /repo reads it",
            "baseline_off_cmd": "cd /repo && /venv/bin/python -m pytest -ra -q -p no:cacheprovider --timeout=900 --continue-on-collection-errors",
            "source_commits": [],
            "add_only": True,
        },
        "engines": [{
            "name": "mc", "path": "/verif/mc",
            "serves_properties": [c["property_id"] for c in checks],
            "kind_free_text": "hand-written explicit-state / small-scope exhaustive explorer for Python (mc/core.py sharded enumeration, mc/bfs.py history BFS), reference oracles in plain Python",
        }],
        "checks": checks,
        "not_applicable": na,
        "notes": "All checks: ./check <id> [--tier quick|thorough]; exit 0 = held on everything explored, exit 1 + VIOLATION line otherwise; KNOWN-FINDING lines come from /verif/known_findings.json (committed, never written at run time).",
    }
    if not na:
        man["not_applicable"] = []
    with open(os.path.join(V, "MANIFEST.json"), "w") as f:
        json.dump(man, f, indent=1)
    print("checks:", len(checks), "not_applicable:", len(na))

if __name__ == "__main__":
    main()

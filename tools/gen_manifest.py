#!/venv/bin/python
"""Regenerate /verif/MANIFEST.json from the table below (single source of truth)."""
import json, os
V = os.path.dirname(os.path.dirname(os.path.abspath(__file__)))

E2 = "bounded exhaustive enumeration of inputs/configurations/programs on the real code against an independent reference oracle (small-scope explicit-state exploration, no sampling)"
E1 = "explicit-state breadth-first search over operation histories on the real code (canonical state hashing, invariant + lock-step reference model on every transition)"

# id -> (category, technique, level text, level note, design ref)
CHECKS = {
 "C01": ("model_checking", E1,
         "Breadth-first search over histories of every public mutator (reference access with assignment / in-place update, getPositionRef, append, extend, position assignment with and without coordinates, scalar and fiber += / *=, fiber assignment, populate with every body, dense reference iteration run to completion and abandoned, updateCoords, updatePayloads, clear) with legal and illegal argument choices on real 1-D fibers (unowned with/without declared shape, tensor-owned) and 2x2 depth-2 trees; well-formedness is evaluated after every transition, rejected ones included, and a transition rejected for coordinate order must leave the raw tree unchanged. The value/coordinate alphabet is closed, so the shaped 1-D family runs to a fixpoint (all history lengths); the others are complete to the stated depth.",
         "Trusted: replay of a history on a fresh object reproduces the state (asserted for every expanded state); alphabet bounds N<=3, values {0,1,2}.", "DESIGN.md §3 C01"),
 "C02": ("model_checking", E1,
         "Every constructor path (empty, fromFiber fresh/owned root, setRoot again, fromUncompressed, fromRandom, fromYAMLfile, makePopulated, deepcopy) and every transform result on every tree of T2(2,2) and a T3 slice is checked with the mirror predicate (rank i lists exactly the depth-i fibers, owners, chain, single root); then BFS over histories of insertions at any depth (through the tensor and through sub-fibers), nested populate loops updating every subset of offered references with inner loops optionally skipped, dense reference iteration, fiber assignment and clear on root and sub-fibers, with the predicate evaluated in every reached state; the state key contains the rank lists, so stale entries are distinct states.",
         "Trusted: raw DFS over Fiber.payloads as the ground truth for 'the tree'; bounds 2x2, 3x2, 2x2x2.", "DESIGN.md §3 C02"),
 "C03": ("model_checking", E1,
         "BFS over histories of getPayload (allocate / no-allocate / caller default), getPayloadRef followed by nothing / <<= / += / *=, writes through up to two handles obtained earlier, getPosition / getPositionRef / getPayload / getPayloadRef with every legal start_pos, at every full and partial point, through Tensor and through the root Fiber, with a dict point->value stepped in lock-step: reads return the model's value and leave tree and rank lists untouched, references alias the stored payload and disturb no other point, position answers do not depend on start_pos. 1-D (shape 3) and 2x2 families run to a fixpoint; 2x2x2 and the via-Fiber 2x2 family to a stated depth; rank-0 tensors by exhaustive short histories. Later additions: fiber assignment through the handle of a partial point, and -= on leaf references.",
         "Trusted: the dict reference model; value alphabet {0,1,2}; shapes <=3 per rank.", "DESIGN.md §3 C03"),
 "C05": ("exploration", E2,
         "Every (destination tree, source tree, loop body) triple over F1(N) at depth 1 (unowned, tensor-owned, non-zero leaf default, uncompressed source with every active range) and over T2(2,2) / a T3(2,2,2) slice at depth 2-3, bodies = every assignment of leave / assign / accumulate / set-to-default to offered leaf references and descend / skip to offered sub-fibers, run on the real lshift iterator in lock-step with a nested-dict model: yielded sequence, source payload identity, reference shows z's current value/sub-tree, well-formedness and rank lists at every yield, final raw tree equal to the model (nothing left behind, nothing outside the source touched), source unchanged. Also a depth-2 accumulate kernel whose source tensor's upper rank is uncompressed, with the source's tree and rank lists snapshotted.",
         "Trusted: the nested-dict reference of populate semantics, calibrated on the pinned tree (probe q8: 104 976 cases); unowned destinations only where the library can infer the payload kind (see evidence assumptions).", "DESIGN.md §3 C05"),
 "C06": ("exploration", E2,
         "Every program (expression of an 11-member einsum family x loop order with operands swizzled to be concordant x uniform tiling of one or two index variables with both tile-loop placements x two-finger / leader-follower intersection) on every operand valuation over a small alphabet (empty operands and cancelling entries included) is executed by an interpreter written in the library's idiom and its output content compared with dense evaluation by nested loops. Quick also runs wide-output expressions over {-1,0,1} (cancellation followed by a smaller new output coordinate) and 3-rank operands tiled on two ranks.",
         "Trusted: the interpreter mc/kernel.py as a faithful instance of the idiom; dense evaluation; index ranges 2-3, entries in {-1,0,1,2}.", "DESIGN.md §3 C06"),
 "C15": ("model_checking", E1,
         "(a) every kernel of a C06 sub-family is run with collection off and with collection on for every (or a stated set of) subset(s) of a per-kernel menu of trace registrations: identical output content, Compute.numOps equal to the interpreter's own ledger of executed multiplications / updates / accumulations, Compute.numIters of each iter trace equal to the loop bodies executed at that rank. (b) explicit-state search over sessions: transitions are whole collection sessions from a menu of nine (kernels with all/none/thresholded/consumable traces, an abandoned loop, a projection with matched ranks, a register-only session), the state is the canonical set of Metrics class attributes; the search reaches a fixpoint, and on every transition dump, trace files and output are byte-identical to the same session run from the pristine state. Further families: operands with explicit defaults and empty sub-fibers, matmul with cancelling partial sums under every loop order, the union-assign kernel (<<= at the leaf), and populate_read / populate_write registrations on the outermost output rank.",
         "Trusted: Metrics' state is exactly its class attributes; the interpreter's ledger; output tensors are declared with a shape.", "DESIGN.md §3 C15"),
 "C16": ("exploration", E2,
         "Loop nests of depth 1-3 (iteration, intersection, iteration over intersection, matrix-vector with populate, Gustavson matrix-matrix, projection) over every operand tree of small universes with explicit defaults and empty sub-fibers, all trace types the nest can emit registered at once: header, one row per simulated access in execution order (independent two-finger simulation incl. trailing peeks; loop bodies), stamp order (strict for iter), coordinates, positions against raw indices in the operand fibers; every flush threshold 2..rows+2 and consumable traces must give identical rows. Destination-side populate traces: header, stamp order, threshold/consumable independence only. Also: populate into a non-empty destination (inserting), an upper rank with tuple coordinates, and every trace registered alone (its rows, stamps aside, must equal those obtained with all traces registered).",
         "Trusted: the trace-row simulation (calibrated on 19 683 nests, probe q27); thresholds <= 9 plus 1000.", "DESIGN.md §3 C16"),
 "C07": ("exploration", E2,
         "Every fiber of F1(N) (N<=5, thorough 6) x declared shape x every active range x owned/unowned x both rank formats is run through every traversal mode (__iter__, iterOccupancy, iterRange over all s,e, iterActive, iterShape, iterActiveShape, iterRangeShape with steps, the three Ref forms complete and abandoned with the exact set of inserted coordinates), every legal start_pos incl. chained windows from getSavedPos(), the dense co-iterators and their Ref forms on pairs/triples, project with increasing and decreasing affine transforms, every interval and start_pos, prune with a predicate family, lazy fibers traversed twice and materialised with fromLazy; every yielded sequence is compared with list comprehensions over the cell vector and non-Ref traversals must leave the raw tree unchanged.",
         "Trusted: list-comprehension oracles over the cell vector; for a shortcut that skips part of the slice only 'suffix of the un-shortcut yield' is demanded.", "DESIGN.md §3 C07"),
 "C10": ("model_checking", E1,
         "For every tree of T2(2,2) and a T3 slice in several tensor configurations (formats, zero/non-zero default, declared/estimated shape): each of 38 value-returning operations is bracketed by a deep structural snapshot and an object-identity set (Fiber, Payload box, Rank, RankAttrs, default boxes) - operand unchanged, nothing shared - and then extended by every follow-up mutation of an 8-entry menu applied to the result (operand must not change) and to the operand (result must not change): all histories of length 2. Each of 33 read-only operations (reads, iterators, co-iteration, ==, counting, shape queries, printing, YAML dump, footprints, nonEmpty, slicing) is bracketed by tree + rank-list snapshots; the three renderers are run twice per tree and compared byte for byte. Operations also include second-generation transforms (flatten / merge / swizzle of a flattened tensor, split of a split, partial swizzles); snapshots are deep-frozen and identity sets include rank-id and shape lists.",
         "Trusted: obs.ids() reaches every mutable object a result can share; follow-up menu of 8 mutations; trees up to 2x2x2.", "DESIGN.md §3 C10"),
 "C19": ("exploration", E2,
         "The real & is executed under Metrics with consumable intersect_0/intersect_1 traces for every top-level pair of F1(5) and for 1-3 consecutive rows under an outer rank against a fixed or per-row second operand; the same traces are fed to the real TwoFinger / SkipAhead / LeaderFollower models fiber by fiber and in one shot and the totals compared with independent merges of the raw coordinate lists; Compute.numSwaps is compared with a per-round, per-group charge recomputed from the tree for every tree of four universes x radix {2,3,4,N} x latency {1,2,N} x two payload valuations. A third payload valuation turns some stored values into explicit zeros (keeping every fiber non-empty) and must give the same swap count.",
         "Trusted: the independent merge counters (self-checked against the totals pinned by test_intersector.py / test_compute.py at start-up); where the statement leaves a reading open (content-free child as a list, tie-break of equal heads) every consistent reading is accepted.", "DESIGN.md §3 C19"),
 "C18": ("exploration", E2,
         "Every tensor of T2(2,2), T2(3,2), a T3(2,2,2) slice (explicit defaults and empty sub-fibers included) and a non-zero-default family is combined with specification families (distinct prime widths x formats {missing,C,U}^depth x root variants; a pairwise covering array over all 6*depth+2 specification fields plus degenerate specs; thorough: the full product of one rank's fields) and every query (getFiber / getSubTree at every point prefix, getRank, getRoot, getTensor, the get*Bits getters) is compared with sums recomputed from a raw walk of the tree spec. A further family gives the tensor's own ranks U formats while the specification omits the format (the specification decides).",
         "Trusted: the footprint oracle mc/ref_c18.py, calibrated at start-up against the totals pinned in test/test_format.py; tensors have declared shapes.", "DESIGN.md §3 C18"),
 "C20": ("exploration", E2,
         "Every tensor of depth 1-3 over small shapes (stored-empty fibers, absent fibers and the all-zero tensor included) x all 3^depth descriptors over {U,C,B} x shape argument {none, own, own+1} (+ mask-word boundary shapes 31..65) is encoded by the real Codec driven as swoop_util does with a stub cache; an independent decoder of the documented layouts must reproduce the content, scanning each encoded fiber through its handle API must yield the decoded elements, coordToHandle must return the first stored coordinate >= q for every q, getSize must equal the stored word count, and child links of U fibers must address the right child. Coordinate lookup is also checked for every ordered sequence of 2-3 queries on one fresh encoding of 1-D fibers over 4-5 coordinates.",
         "Trusted: the layout decoder mc/ref_c20.py (calibrated on 11 688 encodes, probe q24); getSize is a regression oracle; child links of C/B fibers are not demanded (see DESIGN.md).", "DESIGN.md §3 C20"),
 "C09": ("exploration", E2,
         "Every tree of T2(3,2) (thorough T2(3,3)), T3(2,2,2), a depth-4 family and the empty tensor, as tensor with declared / estimated shape and as raw fiber, is run through swizzleRanks for every permutation and back, swapRanks at every depth twice, flattenRanks for every (depth, levels) x 5 styles followed by unflattenRanks for the invertible ones, mergeRanks absolute/relative with sum and max, split followed by flatten-absolute, the *Below forms and updateCoords / updatePayloads at every depth; content(result) must equal the image of the original content under the stated coordinate map, inverses must restore it, and every result must be well-formed with mirrored rank lists. A second-generation family (mc/compose.py) applies every legal pair of transforms (split incl. relative / re-split, swizzle, swap, flatten, unflatten) to tensors with extents 2,3,2 and also requires the inverse permutation to restore the content.",
         "Trusted: the coordinate-map oracle mc/ref_c09.py (no fibertree import); flatten absolute/relative with colliding elements raises by design and is not judged.", "DESIGN.md §3 C09"),
 "C11": ("exploration", E2,
         "All 14 binary and 5 in-place operators over 7 operand-kind pairs (box/scalar/element combinations) on a value alphabet of ints and floats are compared with the same Python operator on the raw values (value and exact type; in-place forms must return and update the same box; <<= replaces the value); every ordered pair of F1(4,{1,2}) and every scalar in {0,1,2,-1} for fiber + * += *= radd rmul against dense vectors, with the in-place form's content compared with the value-returning form's. A form is demanded only where the class defines (or at the pinned tree defined) the dunder; the list is recorded so a deletion is reported. Two in-place fiber forms in a row must still agree with dense evaluation; results of value-returning fiber forms are updated in place afterwards and the operands re-checked; element operands sit at different coordinates.",
         "Trusted: Python's operator module on raw values; operator forms no class ever defined are executed but not demanded.", "DESIGN.md §3 C11"),
 "C12": ("exploration", E2,
         "a == b iff content(a) == content(b) on ALL ordered pairs of F1(4,{1,2}), T2(2,2,{1,2}) (83 521 pairs), T3(2,2,1) and a one-edit neighbourhood slice of T3(2,2,2), in unowned / tensor-owned / mixed variants with different declared shapes and non-zero defaults; all ordered triples of F1(3) for reflexivity, symmetry, transitivity; isEmpty, countValues, nonEmpty (equal content, no explicit default, no empty sub-fiber), deepcopy on every tree; operands, tensors and rank lists unchanged by every comparison. Also trees completed after construction through append / extend / position assignment.",
         "Trusted: independent content extraction from the tree spec.", "DESIGN.md §3 C12"),
 "C13": ("exploration", E2,
         "Every rectangular nest of the stated shapes (depth 1-4, ints and floats, zero and non-zero leaf default, all-default nests and unit dimensions included) through Fiber/Tensor.fromUncompressed (content, shape, no stored defaults) and uncompress with own/imposed shape; YAML dump/load and fiber2dict/dict2fiber round trips of every such tensor/fiber, rank-0 tensors, named tensors and tensors after one transform (flatten -> tuple coordinates, split, swizzle); fromRandom for seeds 0..31 x shapes x densities: reproducible under perturbed global random state, inside the shape, full at density 1.",
         "Trusted: nests as ground truth; the random module's state is saved/restored per case.", "DESIGN.md §3 C13"),
 "C14": ("exploration", E2,
         "For every tree of the stated universes x shape mode (declared / estimated) x leaf default {0,7} x every format assignment in {C,U}^depth x mutable hint, every transform of C08/C09 with every parameter choice is checked for documented rank-id renaming, re-arranged authoritative shape, carried leaf default / per-rank formats / mutable hint, every stored coordinate inside reported shape and active range (iterActive == iterOccupancy); every lazy result of & | ^ - <<, intersection, union, prune, coiter*, project for rank id and active range; unowned fibers with own attributes joining a tensor via fromFiber/setRoot must report the rank's attributes. The second-generation family (mc/compose.py) checks rank ids, authoritative shape and containment in shape and active range after every legal pair of transforms on tensors with distinct extents.",
         "Trusted: the carry-over oracle mc/ref_c14.py fixed by the survey probes q14/q25; with estimated shapes nothing is demanded of the authoritative shape.", "DESIGN.md §3 C14"),
 "C08": ("exploration", E2,
         "Every fiber of F1(N) (N<=5, thorough 6) x {default range, declared shape, every active range} x splitUniform (every step, halos 0..2, relativeCoords), splitNonUniform (every strictly increasing split list), splitEqual, splitUnEqual (every composition), / k and // k, a non-zero-default family, the same at every split depth of T2/T3 trees through four call forms (Fiber depth=, Tensor depth=, Tensor rankid=, owned root rankid=) and nested re-splits with the tiling clause; the raw structure of the result (upper coordinates, each lower fiber's coordinates, payload values and active range) is compared with a partition specification recomputed from the sorted element list.",
         "Trusted: the partition oracle (ported from probes q1/q2, 2.9 M calibration cases; agrees with all 57 split calls of the passing test_fiber_split.py tests); for relativeCoords=True a partition's active range is read in the partition's own coordinates.", "DESIGN.md §3 C08"),
 "C17": ("exploration", E2,
         "Synthetic well-formed traces written directly as CSV (1-3 loop ranks, up to 8 accesses over up to 4 lines, reads / writes / read+write, writes inside and beyond the shape, line sizes 1 and 2, every capacity 0..lines+1 and unbounded, one and two bindings with evict-on root or an outer rank) are run through the real buffetTraffic / cacheTraffic; the buffet result is compared exactly with the (line, eviction-window) rule; cache fills on read traces are compared exactly with the optimum found by an exhaustive memoised search over (trace index, resident line set) with bypass (E3: 2.8 M states per quick run); read+write cache traces against the derived bounds; filterTrace and _combineTraces against row filters / stable merges; directory listings before and after every call.",
         "Trusted: the window-rule oracle and the E3 search in mc/ref_c17.py; overflow counts, cache write-backs and own-rank evict-on are outside the statement and not compared.", "DESIGN.md §3 C17"),
 "C04": ("exploration", E2,
         "Every ordered pair / k-tuple of fibers of the stated small universes (leaf, sub-fiber, tuple-coordinate, mixed-arity, uncompressed-format and n-ary families) is run through the real operators and compared with set algebra, payload identity, mask and freshness oracles; operands and owning tensors are snapshotted before and after. Exhaustive within the bounds, which contain every relative order of the last elements of both operands and every explicit-default placement.",
         "Trusted: the harness's construction of operands through Fiber()/Tensor.fromFiber and raw reads of coords/payloads; nothing is claimed beyond N<=7 coordinates, depth 2, k<=4.", "DESIGN.md §3 C04"),
}
NOT_YET = {}

# families added after the seeded-change rounds (appended to the level text)
ADDED = {
 "C01": "Added since: non-monotone coordinate rotations in updateCoords, element-operand arithmetic through references, fiber assignment from an unordered source, interior operations on depth-2 trees. Round 4: operand fibers stay alive across later operations and no two fibers (of the tree or kept operands) may share a coordinate or payload list object.",
 "C02": "Added since: populate bodies that only touch an offered sub-fiber, swizzle of the top two ranks of a 3-rank tensor, re-rooting a populated tensor with a slice of its own root, and the rejoin family (a sub-tree detached from one tensor joins another: owners of every stored sub-fiber, empty ones included, must follow). Round 4: read-only binary operations (==, !=, | ^ & - traversed to the leaves) between the roots of every ordered pair of T2(2,2) tensors leave both tensors' rank lists unchanged.",
 "C03": "Added since: fiber assignment through the handle of a partial point, -=, trees with a non-zero leaf default over fibers built with default 0, empty interior fibers at depth 3, read-only histories. Round 4: float leaf default 0.5 with the full write alphabet (a handle may not alias the rank's default box).",
 "C04": "Added since: operands with different leaf defaults, literal zeros stored under a non-zero default; operands are snapshotted (including their memoised active range) around every operator use. Round 4: every lazy operator result (binary and n-ary) is traversed twice.",
 "C05": "Added since: accumulate from a tensor whose upper rank is uncompressed. Round 4: float leaf default 0.5 destinations; sources owned by a tensor whose leaf default (7) differs from the default their fibers were built with (stored zeros are values).",
 "C06": "Added since: two wide-output aliases over {-1,0,1} (cancellation followed by a smaller new output coordinate), 3-operand / 3-rank expressions (sum3, ttv, matmul-scale).",
 "C07": "Added since: negative steps for iterRangeShape; the operand snapshot around every traversal includes the memoised active range. Round 4: observe - edit - observe (nine traversals, one public edit: insert / set to default / append beyond the end, the same traversals again).",
 "C08": "Added since: / k with a declared shape and every explicit active range (the partition count refers to the shape), relative-coordinate partitions' active ranges. Round 4: split - edit - split with the same parameters (first result unchanged, second against the oracle on the edited cells); split boundaries given as a Fiber; the upper level of a split (its active range, re-split of the upper level).",
 "C09": "Added since: second-generation programs of length 2-3 on 3- and 4-rank tensors with pairwise distinct extents (split of a split, flatten tuple/pair with levels up to 3, unflatten, swizzle, swap), inverse permutation and linear re-flatten of the restored tensor.",
 "C10": "Added since: second-generation operations (flatten / merge / swizzle of a flattened tensor, split of a split), deep-frozen snapshots including rank-id and shape lists. Round 4: flatten / merge / swap below the top rank of 3-rank tensors (tensor and fiber level); tensors created empty without a declared shape and filled through references.",
 "C11": "Added since: two in-place fiber forms in a row, later update of a value-returning result must not reach the operands, fiber/scalar forms under leaf default 7, floats one ulp apart. Round 4: value-returning compositions are demanded like the in-place ones, also with a left operand without declared shape; NaN and infinities in the value set.",
 "C12": "Added since: trees completed after construction (append / extend / position assignment), tensors whose leaf default differs from the default their fibers were built with, observe - mutate in place - observe sequences.",
 "C13": "Added since: convert - edit - convert (uncompress and dump, rewrite one point through a reference, uncompress and dump again); leaf default None.",
 "C17": "Added since: both list orders of two bindings for the families with writes in the quick tier.",
 "C14": "Added since: the second-generation programs of C09 (rank ids, authoritative shape, every coordinate inside shape and active range after each step), populate into a destination with an explicit range.",
 "C15": "Added since: populate_read / populate_write registrations on the outermost output rank, operands with explicit defaults and empty sub-fibers, the union-assign kernel, sessions that were never ended or whose consumable trace was never consumed (11 sessions). Round 4: a registered iter trace must exist and report 0 for a rank the kernel never reaches; report objects handed out by earlier sessions are re-read after later sessions.",
 "C16": "Added since: populate into a non-empty compressed and into an uncompressed destination (position simulation), the projected-populate idiom executed per row of an outer loop, tuple-coordinate upper rank, every trace registered alone must give the same rows. Round 4: both trace modes (file and consumable) for the same rank and type in both registration orders.",
 "C18": "Added since: tensors carrying their own U formats, split (second-generation) tensors whose uncompressed upper fibers have an active range narrower than the shape, query - insert - query with the same Format object.",
 "C19": "Added since: a third payload valuation with explicit zeros must give the same swap count, siblings of unequal width (T3(2,4,1)) in the quick tier, the same trace lists are fed to every model in turn (a model may not consume its input). Round 4: intersections inside 2-3 enclosing loops, every nest shape and batching granularity (deep_nest).",
 "C20": "Added since: every ordered query sequence on one encoding (lookup history), lock-step interleaved scans of two encoded fibers, mask lengths at word boundaries. Round 4: one Codec object encoding a sequence of tensors / shape arguments (codec-reuse); tensors with a non-zero leaf default (codec-default).",
}

def main():
    props = [json.loads(l) for l in open(os.path.join(V, "properties.jsonl"))]
    checks = []
    na = []
    for p in props:
        pid = p["id"]
        if pid in CHECKS:
            cat, tech, text, note, ref = CHECKS[pid]
            if pid in ADDED:
                text = text.rstrip() + " " + ADDED[pid]
            checks.append({
                "property_id": pid,
                "quick_cmd": "./check %s --tier quick" % pid,
                "thorough_cmd": "./check %s --tier thorough" % pid,
                "evidence_file": "/verif/evidence/%s.json" % pid,
                "replay_cmd_template": "./check %s --replay {path}" % pid,
                "engine": "mc",
                "level_claimed": {"category": cat, "text": text, "design_ref": ref},
                "level_note": note,
                "technique": tech,
            })
        else:
            na.append({"property_id": pid, "reason": NOT_YET.get(pid, "check not built yet in this session (planned: bounded exhaustive exploration, see DESIGN.md §3); not claimed until it runs silently on the unchanged tree")})
    man = {
        "version": 1,
        "setup_cmd": "cd /verif && /venv/bin/python -c \"import sys; sys.path[:0]=['/repo','/verif']; import fibertree, mc.core, mc.obs, mc.univ; print('ok', fibertree.__file__)\"",
        "hooks": {
            "guard": "FIBERTREE_VERIF",
            "enable": "no instrumentation is compiled in: checks import /repo's working tree directly (PYTHONPATH=/repo) and observe through public API and the documented public attributes; ./check exports FIBERTREE_VERIF=1 but no code in /repo reads it",
            "baseline_off_cmd": "cd /repo && /venv/bin/python -m pytest -ra -q -p no:cacheprovider --timeout=900 --continue-on-collection-errors",
            "source_commits": [],
            "add_only": True,
        },
        "engines": [{
            "name": "mc", "path": "/verif/mc",
            "serves_properties": [c["property_id"] for c in checks],
            "kind_free_text": "hand-written explicit-state / small-scope exhaustive explorer for Python (mc/core.py sharded enumeration, mc/bfs.py history BFS), reference oracles in plain Python",
        }],
        "checks": checks,
        "not_applicable": na,
        "notes": "All checks: ./check <id> [--tier quick|thorough]; exit 0 = held on everything explored, exit 1 + VIOLATION line otherwise; KNOWN-FINDING lines come from /verif/known_findings.json (committed, never written at run time).",
    }
    if not na:
        man["not_applicable"] = []
    with open(os.path.join(V, "MANIFEST.json"), "w") as f:
        json.dump(man, f, indent=1)
    print("checks:", len(checks), "not_applicable:", len(na))

if __name__ == "__main__":
    main()

#!/bin/bash
# File one proposal of a seeding round: tools/seed_file.sh <round-dir> <property> <k> <name> "<change>" "<needs>" [extra check ids...]
# reads <round-dir>/out-<property>/<k>/{patch.diff,demo.py}; evaluates with tools/seed_eval.py --keep; records the change text
rd=$1; prop=$2; k=$3; name=$4; change=$5; needs=$6; shift 6
cd /verif
tools/seed_eval.py $rd/out-$prop/$k/patch.diff $rd/out-$prop/$k/demo.py $name $prop $prop "$@" --keep --needs "$needs" 2>&1 | tail -8
if [ -f seeded/$name/meta.json ]; then
  /venv/bin/python - "$name" "$change" "$rd" <<'PY'
import json, sys
name, change, rd = sys.argv[1:4]
p = "seeded/%s/meta.json" % name
m = json.load(open(p)); m["change"] = change; m["source"] = "round 9-10 sub-agent (property text + scratch worktree only)"
json.dump(m, open(p, "w"), indent=1)
PY
fi

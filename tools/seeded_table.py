#!/venv/bin/python
"""Markdown table of the seeded changes filed under /verif/seeded (for DESIGN.md section 10)."""
import glob, json, os
V = os.path.dirname(os.path.dirname(os.path.abspath(__file__)))
print("| seeded change | property | code site | detected by (quick tier) | note |")
print("|---|---|---|---|---|")
n = hit = 0
for mp in sorted(glob.glob(os.path.join(V, "seeded", "*", "meta.json"))):
    m = json.load(open(mp))
    n += 1
    det = ", ".join(m.get("detected_by", [])) or "**none**"
    hit += bool(m.get("detected_by"))
    note = m.get("note", "")
    print("| %s | %s | %s | %s | %s |" % (m["name"], m["property"], m.get("change", "").replace("|", "\\|"), det, note.replace("|", "\\|")))
print()
print("%d seeded changes, %d reported by at least one check." % (n, hit))

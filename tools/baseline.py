#!/venv/bin/python
"""Run the repository's pinned suite (command from /root/.vp/BASELINE.json) in a
given checkout and compare the passing set with BASELINE.json's stable_pass.
usage: tools/baseline.py [repo_dir]   (exit 0 iff every stable_pass test passes)"""
import json, os, subprocess, sys, tempfile, xml.etree.ElementTree as ET
repo = sys.argv[1] if len(sys.argv) > 1 else "/repo"
base = json.load(open("/root/.vp/BASELINE.json"))
out = tempfile.mktemp(suffix=".xml")
env = dict(os.environ)
env.pop("FIBERTREE_VERIF", None)
env["PYTHONPATH"] = repo
env["PYTHONDONTWRITEBYTECODE"] = "1"
subprocess.run(["/venv/bin/python", "-m", "pytest", "-q", "-p", "no:cacheprovider", "--timeout=900",
                "--continue-on-collection-errors", "-x" if False else "-q", "--junitxml=" + out],
               cwd=repo, env=env, stdout=subprocess.DEVNULL, stderr=subprocess.DEVNULL)
passed = set()
for tc in ET.parse(out).getroot().iter("testcase"):
    if not any(ch.tag in ("failure", "error", "skipped") for ch in tc):
        passed.add(tc.get("classname") + "::" + tc.get("name"))
os.unlink(out)
want = set(base["stable_pass"])
missing = sorted(want - passed)
print("stable_pass=%d passed_now=%d missing=%d" % (len(want), len(passed), len(missing)))
for m in missing[:30]:
    print("  NOW FAILING:", m)
sys.exit(1 if missing else 0)
